"""Canonical branch conditions.

Rules ask "is X known to hold at this node" - the answer must not depend on how the programmer spelled the test
(`if not x: return` + fall-through versus `if x:` + body, `!=` versus `not ==`, `len(v) == 0` versus `not v`,
`n > 3` versus `n >= 4`, a conjunction versus nested ifs).  canon() maps a test with a truth value to a set of signed
atoms; facts() is the union over all branch markers that dominate a node; holds() canonicalises the rule's pattern the
same way and asks for set inclusion.

Atoms (text, polarity):
    not X                      -> canon(X) with flipped polarity
    A and B (true)             -> canon(A) + canon(B);   A or B (false) -> both false
    A and B (false), A or B (true) -> one compound atom ALL[...] (De Morgan applied so both spell the same atom)
    a != b, a is not b, a not in b -> the positive comparison, flipped
    x == None                  -> x is None
    len(x) == 0, len(x) < 1    -> (x, false);  len(x) != 0, len(x) > 0, len(x) >= 1 -> (x, true)
    order comparisons          -> `a < b` form only: a >= b -> not (a < b); a > b -> b < a; a <= b -> not (b < a);
                                  with an integer constant c on one side: a > c -> not (a < c+1), a <= c -> a < c+1,
                                  c < a -> not (a < c+1) ...  (integer reading; the rules that use order facts are
                                  about lengths, counts and integer codes)
Everything else is an opaque atom of its normalised text.
"""

from __future__ import annotations

import ast

from .model import norm


def _is_int(n) -> bool:
    return isinstance(n, ast.Constant) and isinstance(n.value, int) and not isinstance(n.value, bool)


def _const_int(n):
    """int value of a literal / simple constant arithmetic (2**32 - 1), else None."""
    if _is_int(n):
        return n.value
    if isinstance(n, ast.UnaryOp) and isinstance(n.op, ast.USub):
        v = _const_int(n.operand)
        return -v if v is not None else None
    if isinstance(n, ast.BinOp):
        a, b = _const_int(n.left), _const_int(n.right)
        if a is None or b is None:
            return None
        try:
            if isinstance(n.op, ast.Add):
                return a + b
            if isinstance(n.op, ast.Sub):
                return a - b
            if isinstance(n.op, ast.Mult):
                return a * b
            if isinstance(n.op, ast.Pow) and 0 <= b <= 64:
                return a**b
            if isinstance(n.op, ast.LShift) and 0 <= b <= 64:
                return a << b
        except Exception:
            return None
    return None


def _len_arg(n):
    if isinstance(n, ast.Call) and isinstance(n.func, ast.Name) and n.func.id == "len" and len(n.args) == 1 and not n.keywords:
        return n.args[0]
    return None


def _lt(a_text: str, b_text: str, pol: bool):
    return {(f"{a_text} < {b_text}", pol)}


EMPTINESS = [True]  # sa.summary switches the len()-emptiness rewriting off: it reasons on lengths as integers


INT_TEXTS: set = set()  # texts known to be integer-valued in the tree under analysis (model.Repo.int_texts, set by report.Ctx)


def _is_int_expr(n) -> bool:
    if _is_int(n) or _len_arg(n) is not None:
        return True
    if isinstance(n, ast.Call) and isinstance(n.func, ast.Name) and n.func.id in ("int", "ord") and not n.keywords:
        return True
    if isinstance(n, ast.UnaryOp) and isinstance(n.op, (ast.USub, ast.UAdd)):
        return _is_int_expr(n.operand)
    if isinstance(n, ast.BinOp) and isinstance(n.op, (ast.Add, ast.Sub, ast.Mult)):
        return _is_int_expr(n.left) and _is_int_expr(n.right)
    if isinstance(n, (ast.Attribute, ast.Name)):
        return norm(n) in INT_TEXTS
    return False


def _split_const(n):
    """(non-constant part or None, integer offset) of `e + c` / `e - c` / `c + e`."""
    c = _const_int(n)
    if c is not None:
        return None, c
    if isinstance(n, ast.BinOp) and isinstance(n.op, (ast.Add, ast.Sub)):
        rc = _const_int(n.right)
        if rc is not None:
            base, c0 = _split_const(n.left)
            return base, c0 + (rc if isinstance(n.op, ast.Add) else -rc)
        lc = _const_int(n.left)
        if lc is not None and isinstance(n.op, ast.Add):
            base, c0 = _split_const(n.right)
            return base, c0 + lc
    return n, 0


def _int_order(left, op, right, truth):
    """Both sides integer-valued: one atom `A < B + k` with A, B in text order (a + 1 < b  ==  not b < a + 2)."""
    a, c1 = _split_const(left)
    b, c2 = _split_const(right)
    if a is None or b is None:
        return None
    o = type(op)
    if o is ast.Lt:
        k = c2 - c1
    elif o is ast.LtE:
        k = c2 - c1 + 1
    elif o is ast.Gt:
        a, b, k = b, a, c1 - c2
    else:
        a, b, k = b, a, c1 - c2 + 1
    at, bt = norm(a), norm(b)
    if at > bt:  # not (a < b + k)  ==  b + k <= a  ==  b < a + 1 - k
        at, bt, k, truth = bt, at, 1 - k, not truth
    return {(f"{at} < {bt}" + (f" + {k}" if k > 0 else f" - {-k}" if k < 0 else ""), truth)}


def _order(left, op, right, truth):
    """Canonical atoms for an order comparison; None if not handled."""
    lc, rc = _const_int(left), _const_int(right)
    lt, rt = norm(left), norm(right)
    # emptiness via len()
    for side, other_c, flipped in (((left, rc, False), (right, lc, True)) if EMPTINESS[0] else ()):
        arg = _len_arg(side)
        if arg is not None and other_c is not None:
            o = type(op)
            if flipped:  # c OP len(x)  ==  len(x) OP' c
                o = {ast.Lt: ast.Gt, ast.Gt: ast.Lt, ast.LtE: ast.GtE, ast.GtE: ast.LtE}.get(o, o)
            c = other_c
            nonempty = None
            if (o is ast.Gt and c == 0) or (o is ast.GtE and c == 1) or (o is ast.NotEq and c == 0):
                nonempty = True
            elif (o is ast.Lt and c == 1) or (o is ast.LtE and c == 0) or (o is ast.Eq and c == 0):
                nonempty = False
            if nonempty is not None:
                return canon(arg, truth if nonempty else not truth)
    o = type(op)
    if o not in (ast.Lt, ast.LtE, ast.Gt, ast.GtE):
        return None
    if rc is not None and lc is None:  # a OP c  ->  a < k form
        if o is ast.Lt:
            return _lt(lt, str(rc), truth)
        if o is ast.LtE:
            return _lt(lt, str(rc + 1), truth)
        if o is ast.Gt:
            return _lt(lt, str(rc + 1), not truth)
        return _lt(lt, str(rc), not truth)
    if lc is not None and rc is None:  # c OP a
        if o is ast.Lt:  # c < a  ==  not (a < c+1)
            return _lt(rt, str(lc + 1), not truth)
        if o is ast.LtE:  # c <= a == not (a < c)
            return _lt(rt, str(lc), not truth)
        if o is ast.Gt:  # c > a == a < c
            return _lt(rt, str(lc), truth)
        return _lt(rt, str(lc + 1), truth)  # c >= a == a < c+1
    if lc is None and rc is None and _is_int_expr(left) and _is_int_expr(right):
        r = _int_order(left, op, right, truth)
        if r is not None:
            return r
    if o is ast.Lt:
        return _lt(lt, rt, truth)
    if o is ast.GtE:
        return _lt(lt, rt, not truth)
    if o is ast.Gt:
        return _lt(rt, lt, truth)
    return _lt(rt, lt, not truth)


def _signed(atoms) -> str:
    return ";".join(sorted(("+" if p else "-") + t for t, p in atoms))


def canon(test, truth: bool = True) -> set:
    if isinstance(test, ast.UnaryOp) and isinstance(test.op, ast.Not):
        return canon(test.operand, not truth)
    if isinstance(test, ast.Call) and isinstance(test.func, ast.Name) and test.func.id in ("isinstance", "issubclass") and len(test.args) == 2 and isinstance(test.args[1], ast.Tuple) and test.args[1].elts and not test.keywords:
        # isinstance(x, (A, B)) is isinstance(x, A) or isinstance(x, B)
        parts = [ast.Call(func=test.func, args=[test.args[0], e], keywords=[]) for e in sorted(test.args[1].elts, key=norm)]
        return canon(ast.BoolOp(op=ast.Or(), values=parts) if len(parts) > 1 else parts[0], truth)
    if isinstance(test, ast.BoolOp):
        member = _as_membership(test)
        if member is not None:
            return canon(member, truth)
        conj = isinstance(test.op, ast.And)
        if conj == truth:  # true conjunction / false disjunction: every part has that truth
            out = set()
            for v in test.values:
                out |= canon(v, truth)
            return out
        # false conjunction == true disjunction of the negations: name it by the conjunction that is false
        parts = set()
        for v in test.values:
            parts |= canon(v, True if conj else False)
        # for a disjunction that is true: ALL[negated parts] is false
        if not conj:
            return {("ALL[" + _signed(parts) + "]", False)}
        return {("ALL[" + _signed(parts) + "]", False)}
    if isinstance(test, ast.Compare) and len(test.ops) == 1:
        left, op, right = test.left, test.ops[0], test.comparators[0]
        if isinstance(op, ast.NotEq):
            r = _order(left, op, right, truth)
            if r is not None:
                return r
            return canon(ast.Compare(left=left, ops=[ast.Eq()], comparators=[right]), not truth)
        if isinstance(op, ast.IsNot):
            return canon(ast.Compare(left=left, ops=[ast.Is()], comparators=[right]), not truth)
        if isinstance(op, ast.NotIn):
            return canon(ast.Compare(left=left, ops=[ast.In()], comparators=[right]), not truth)
        if isinstance(op, (ast.Eq, ast.Is)):
            r = _order(left, op, right, truth)
            if r is not None:
                return r
            if isinstance(right, ast.Constant) and right.value is None:
                return {(f"{norm(left)} is None", truth)}
            if isinstance(left, ast.Constant) and not isinstance(right, ast.Constant):
                left, right = right, left
            return {(f"{norm(left)} == {norm(right)}", truth)}
        if isinstance(op, ast.In) and isinstance(right, (ast.List, ast.Tuple, ast.Set)) and right.elts and not any(isinstance(e, ast.Starred) for e in right.elts):
            # membership in a display: neither the kind of display nor the order of its elements matters
            elts = sorted({norm(e) for e in right.elts})
            return {(f"{norm(left)} in ({', '.join(elts)}{',' if len(elts) == 1 else ''})", truth)}
        r = _order(left, op, right, truth)
        if r is not None:
            return r
    if isinstance(test, ast.Compare) and len(test.ops) >= 2 and not truth:
        # not (a OP b OP c) is not (a OP b and b OP c)
        links = []
        left = test.left
        for op, right in zip(test.ops, test.comparators):
            links.append(ast.Compare(left=left, ops=[op], comparators=[right]))
            left = right
        return canon(ast.BoolOp(op=ast.And(), values=links), False)
    if isinstance(test, ast.Compare) and len(test.ops) >= 2 and truth:
        # a OP b OP c (true) == every link true
        out = set()
        left = test.left
        for op, right in zip(test.ops, test.comparators):
            out |= canon(ast.Compare(left=left, ops=[op], comparators=[right]), True)
            left = right
        return out
    return {(norm(test), truth)}


def _as_membership(test):
    """`x == A or x == B [or ...]` is `x in (A, B, ...)`; `x != A and x != B` is `x not in (A, B)` - for one subject compared
    with names / attribute chains / constants (enum members, module constants), where `in` and `==` agree."""
    want = ast.Eq if isinstance(test.op, ast.Or) else ast.NotEq
    subject, elts = None, []
    if len(test.values) < 2:
        return None
    for v in test.values:
        if isinstance(v, ast.UnaryOp) and isinstance(v.op, ast.Not) and isinstance(v.operand, ast.Compare) and len(v.operand.ops) == 1 \
                and isinstance(v.operand.ops[0], ast.NotEq if want is ast.Eq else ast.Eq):
            v = ast.Compare(left=v.operand.left, ops=[want()], comparators=v.operand.comparators)
        if not (isinstance(v, ast.Compare) and len(v.ops) == 1 and isinstance(v.ops[0], want)):
            return None
        left, right = v.left, v.comparators[0]

        def namelike(e):
            return isinstance(e, ast.Constant) and e.value is not None and not isinstance(e.value, float) or (isinstance(e, (ast.Name, ast.Attribute)) and (dotted_text(e) or "").split(".")[-1].isupper())

        if namelike(left) and not namelike(right):
            left, right = right, left
        if not namelike(right) or namelike(left):
            return None
        if subject is None:
            subject = left
        elif norm(subject) != norm(left):
            return None
        elts.append(right)
    node = ast.Compare(left=subject, ops=[ast.In()], comparators=[ast.Tuple(elts=elts, ctx=ast.Load())])
    return node if want is ast.Eq else ast.UnaryOp(op=ast.Not(), operand=node)


def dotted_text(e):
    parts = []
    while isinstance(e, ast.Attribute):
        parts.append(e.attr)
        e = e.value
    if isinstance(e, ast.Name):
        parts.append(e.id)
        return ".".join(reversed(parts))
    return None


def parse(pattern: str):
    return ast.parse(pattern, mode="eval").body


def facts(cfg, node, within=None, fn=None) -> set:
    """Signed atoms known at node: canon of every dominating branch condition (only the tests written inside the
    statement `within`, e.g. a loop, when given).  With fn, once-assigned locals in a test are replaced by their
    definitions first (`running = t is not None and t.is_alive()` ... `if not running:`)."""
    out = set()
    inside = {id(x) for x in ast.walk(within)} if within is not None else None
    for t, v in cfg.dominating_conditions(node):
        if inside is not None and id(t) not in inside:
            continue
        if fn is not None:
            from . import rules

            t = rules.expand_ast(fn, t)
        out |= canon(t, v)
    return out


def holds(cfg, node, pattern, truth: bool = True, within=None, fn=None) -> bool:
    """Does `pattern` (source text or expression) have the given truth at node on every path?"""
    want = canon(parse(pattern) if isinstance(pattern, str) else pattern, truth)
    return want <= facts(cfg, node, within, fn)


def show(fs) -> str:
    return ", ".join(("" if p else "not ") + t for t, p in sorted(fs)) or "no condition"


def facts_matching(cfg, node, pred) -> list:
    """Sorted [(atom, polarity)] of the facts at node whose atom text satisfies pred."""
    return sorted((t, p) for t, p in facts(cfg, node) if pred(t))


def describe(cfg, node) -> str:
    return ", ".join(("" if p else "not ") + t for t, p in sorted(facts(cfg, node))) or "no condition"


def expr_facts(root, target) -> set:
    """Facts that hold when `target` (a sub-expression of `root`) is evaluated, from short-circuit operators and conditional
    expressions on the way down: in `a or f()` the call runs only if `a` is false."""
    out: set = set()

    def walk(node) -> bool:
        if node is target:
            return True
        if isinstance(node, ast.BoolOp):
            for i, v in enumerate(node.values):
                if walk(v):
                    for earlier in node.values[:i]:
                        out.update(canon(earlier, isinstance(node.op, ast.And)))
                    return True
            return False
        if isinstance(node, ast.IfExp):
            if walk(node.test):
                return True
            if walk(node.body):
                out.update(canon(node.test, True))
                return True
            if walk(node.orelse):
                out.update(canon(node.test, False))
                return True
            return False
        if isinstance(node, (ast.Lambda, ast.FunctionDef, ast.GeneratorExp, ast.ListComp, ast.SetComp, ast.DictComp)):
            return False
        return any(walk(ch) for ch in ast.iter_child_nodes(node))

    walk(root)
    return out
