"""CLI: /venv/bin/python -m sa.check <ID> [--tier quick|thorough] [--repo DIR]

exit 0  every rule instance of the property holds (or fails only at listed known findings)
exit 1  VIOLATION property=<id> replay=<path>
exit 2  ANALYSIS-ERROR (anchor vanished, unknown shape, floor undercut, checker crashed) - never a verdict
"""

from __future__ import annotations

import argparse
import importlib
import os
import sys
import traceback


def main(argv=None) -> int:
    ap = argparse.ArgumentParser()
    ap.add_argument("prop")
    ap.add_argument("--tier", default=os.environ.get("VERIF_TIER", "quick"), choices=["quick", "thorough"])
    ap.add_argument("--repo", default=None)
    args = ap.parse_args(argv)
    if args.repo:
        os.environ["SECSGEM_REPO"] = args.repo
    try:
        seed = int(os.environ.get("VERIF_SEED", "0"))
    except ValueError:
        seed = 0
    from . import model, refmodels, report

    if args.repo:
        model.REPO_ROOT = args.repo
    prop = args.prop.upper()
    try:
        mod = importlib.import_module(f"sa.props.{prop.lower()}")
    except ModuleNotFoundError:
        print(f"ANALYSIS-ERROR property={prop} no checker module")
        return 2
    try:
        repo = model.load_repo(model.REPO_ROOT)
        ctx = report.Ctx(prop, args.tier, seed, repo)
        from . import selftest

        report.run_rules(ctx, mod)
        if args.tier == "thorough" and hasattr(mod, "run_thorough"):
            mod.run_thorough(ctx)
        if not ctx.obligations:
            raise model.AnalysisError("no rule instance was evaluated")
        # two-way test of the rules on variants of the current tree (positive controls; twins in the thorough tier)
        facts = selftest.run(prop, args.tier, mod, seed)
        meta = dict(mod.META)
        meta["coverage_extra"] = {"selftest": facts}
        return report.finish(ctx, meta)
    except model.AnalysisError as exc:
        print(f"ANALYSIS-ERROR property={prop} {exc}")
        return 2
    except Exception as exc:  # checker bug: never let a traceback look like a violation
        traceback.print_exc()
        print(f"ANALYSIS-ERROR property={prop} checker raised {type(exc).__name__}: {exc}")
        return 2


if __name__ == "__main__":
    code = main()
    sys.stdout.flush()
    sys.exit(code)
