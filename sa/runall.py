"""Run several property checks against one tree in a single process and print one line per property:
    <ID> exit=<code> violations=<n> [first failing rule/construct ...]
Used by the variant self-test and the developer matrix; writes no evidence (SA_OUT_DIR is redirected by the caller)."""

from __future__ import annotations

import contextlib
import io
import json
import os
import sys


def run(repo_root: str, props: list[str]) -> dict:
    from . import check

    out = {}
    for p in props:
        buf = io.StringIO()
        with contextlib.redirect_stdout(buf):
            code = check.main([p, "--repo", repo_root, "--tier", "quick"])
        lines = buf.getvalue().splitlines()
        fails = [l.strip() for l in lines if l.strip().startswith("FAIL ")]
        errs = [l.strip() for l in lines if l.startswith("ANALYSIS-ERROR")]
        out[p] = {"exit": code, "fails": fails, "errors": errs}
    return out


if __name__ == "__main__":
    root = sys.argv[1]
    props = sys.argv[2:]
    print(json.dumps(run(root, props)))
