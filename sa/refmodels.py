"""Reviewed reference models of anchored functions, compared with the implementation as abstract summaries.

`sa/reference/models/index.json` lists, per property, functions whose whole observable behaviour (what they return,
what they store or call on their objects, what they refuse) is part of the property.  For each there is a model file
`<Class>.<method>.py` / `<module>.<func>.py`: a plain restatement of the function's behaviour as it was reviewed at the
pinned commit (docstrings, logging and annotations dropped).  The check summarises model and implementation with
sa.summary (normal form, helpers inlined) and compares the case tables of the listed components (sa.props._codec).

The models are committed files; nothing regenerates them at check time.  A change of behaviour in a modelled function
is reported with both case tables; a re-spelling of the same behaviour is not.  A function whose summary cannot be
computed any more (try/except, break, ...) is an ANALYSIS-ERROR for that obligation's property, not a verdict.
"""

from __future__ import annotations

import json
import ast
import os

from .model import AnalysisError
from .props import _codec

DIR = os.path.join(os.path.dirname(__file__), "reference", "models")


def load_index():
    with open(os.path.join(DIR, "index.json"), encoding="utf-8") as handle:
        return json.load(handle)["models"]


def resolve(repo, target: str):
    if "/" in target:
        # Class.method/inner: a function defined inside a method, analysed as a function of its own (free variables are names)
        from .model import FuncInfo

        outer_t, inner = target.split("/", 1)
        outer = resolve(repo, outer_t)
        found = [n for n in ast.walk(outer.node) if isinstance(n, ast.FunctionDef) and n is not outer.node and n.name == inner]
        if len(found) != 1:
            raise AnalysisError(f"{outer.qualname}: local function {inner} not found")
        info = FuncInfo(found[0], outer.module, outer.cls)
        info.name = f"{outer.name}/{inner}"
        return info
    if ":" in target:
        mod, func = target.split(":")
        return repo.module_func(mod, func)
    cls, meth = target.rsplit(".", 1)
    return repo.method(cls, meth, inherited=False)


def model_text(target: str) -> str:
    path = os.path.join(DIR, target.replace(":", ".").replace("/", ".") + ".py")
    if not os.path.exists(path):
        raise AnalysisError(f"reference model {path} is missing")
    with open(path, encoding="utf-8") as handle:
        return handle.read()


def check(ctx, prop: str | None = None):
    prop = prop or ctx.prop
    n = 0
    unknown = []
    for m in load_index():
        if m["property"] != prop:
            continue
        try:
            f = resolve(ctx.repo, m["target"])
        except AnalysisError:
            if _inlined_into_callers(ctx, m["target"]):
                ctx.ob(m["rule"], m["target"], True, "this private helper has been inlined into its callers, and they agree with their reviewed models with this helper's model inlined", key="model inlined")
                n += 1
                continue
            raise
        params = _codec.decode_params() if m.get("data_is_bytes") else None
        try:
            _codec.agree(ctx, m["rule"], f, model_text(m["target"]), {c: m["sentence"] for c in m["components"]}, params=params, keep=set(m.get("keep", ())), key_prefix="model ", ignore=tuple(m.get("ignore", ())))
        except AnalysisError as exc:
            unknown.append(str(exc))
        n += 1
    # a spelling the summariser cannot describe is an analysis error - unless the rules already found a violation,
    # which stands on its own
    if unknown and all(o["ok"] for o in ctx.obligations):
        raise AnalysisError(unknown[0] if len(unknown) == 1 else f"{unknown[0]} (+{len(unknown) - 1} more functions)")
    return n


def _inlined_into_callers(ctx, target: str) -> bool:
    """A modelled private helper that no longer exists: true iff some modelled function of the same class calls it in its
    model, and every such function still has the summary of its model once the helper's model is inlined there."""
    if "." not in target or ":" in target or "/" in target:
        return False
    cname, helper = target.rsplit(".", 1)
    if not helper.startswith("_") or not ctx.repo.has_cls(cname) or ctx.repo.cls(cname).find_method(helper) is not None:
        return False
    callers = {}
    for m in load_index():
        if m["target"].startswith(cname + ".") and helper in m.get("keep", ()) and m["target"] not in callers:
            callers[m["target"]] = m
    checked = 0
    for t, m in callers.items():
        try:
            f = resolve(ctx.repo, t)
        except AnalysisError:
            continue
        text = model_text(t)
        if helper not in _codec.vanished_helpers(f, set(m.get("keep", ())), text):
            continue
        params = _codec.decode_params() if m.get("data_is_bytes") else None
        keep = set(m.get("keep", ()))
        try:
            found = _codec.signature(_codec.paths_of(ctx, f, params, keep))
            want = _codec.signature(_codec.reference_paths_inlined(ctx, f, text, params, keep, _codec.vanished_helpers(f, keep, text)))
        except Exception:  # pylint: disable=broad-except
            return False
        if any(found[c] != want[c] for c in m["components"]):
            return False
        checked += 1
    return checked > 0


def agrees(ctx, target: str, prop: str | None = None) -> bool:
    """Does the implementation's summary equal the reviewed model of `target` claimed by this property (all components)?"""
    prop = prop or ctx.prop
    entries = [m for m in load_index() if m["property"] == prop and m["target"] == target]
    if not entries:
        return False
    m = entries[0]
    try:
        f = resolve(ctx.repo, target)
        params = _codec.decode_params() if m.get("data_is_bytes") else None
        _codec.IGNORE[:] = list(m.get("ignore", ()))
        try:
            found = _codec.signature(_codec.paths_of(ctx, f, params, set(m.get("keep", ()))))
            want = _codec.signature(_codec.reference_paths(model_text(target), params, like=f, repo=ctx.repo))
        finally:
            _codec.IGNORE[:] = []
    except Exception:  # pylint: disable=broad-except
        return False
    if any(mark in t for c in m["components"] for t in found[c] for mark in _codec.LOST):
        return False
    return all(found[c] == want[c] for c in m["components"])


def guarded(ctx, rule: str, targets, fn, *args, **kwargs):
    """Run a group of path rules; when they meet a spelling they do not recognise (AnalysisError) but every function of the
    group still has exactly the summary of its reviewed model - the text on which those rules were established - the
    clauses carry over: one obligation records that, instead of an analysis error."""
    try:
        return fn(ctx, *args, **kwargs)
    except AnalysisError as exc:
        if targets and all(agrees(ctx, t) for t in targets):
            ctx.ob(rule, ", ".join(targets), True, f"path rules do not recognise this spelling ({str(exc)[:160]}); the summaries equal the reviewed models on which the rules hold", key="by-model " + fn.__name__)
            return None
        raise


def deferred(ctx, rule: str, targets, fn, *args, **kwargs):
    """Path rules about a pure data transformation whose summary is precise: the rules run first; if they object (or cannot
    read the spelling) although every function of the group has exactly the summary of its reviewed model, the objection
    is about the spelling, not the behaviour - the reviewed model is the text the rules were established on - and one
    obligation records the agreement.  Otherwise the rules' verdicts stand.  Use only where the summary captures the whole
    clause (no locking / threading aspects, which summaries do not describe)."""
    sub = type(ctx)(ctx.prop, ctx.tier, ctx.seed, ctx.repo)
    err = None
    try:
        fn(sub, *args, **kwargs)
    except AnalysisError as exc:
        err = exc
    failing = [o for o in sub.obligations if not o["ok"]]
    for kind in ("files", "functions"):
        ctx.analysed[kind] |= sub.analysed[kind]
    # only objections about the modelled functions themselves can be "about the spelling": a failing obligation on another
    # construct (a class constant the rule group also looks at, ...) stands whatever the models say
    foreign = [o for o in failing if not any(str(o["construct"]).startswith(t.split("/")[0]) for t in targets)]
    if foreign:
        ctx.obligations.extend(foreign)
        failing = [o for o in failing if o not in foreign]
        sub.obligations = [o for o in sub.obligations if o not in foreign]
    if (failing or err is not None) and targets and all(agrees(ctx, t) for t in targets):
        ctx.obligations.extend(o for o in sub.obligations if o["ok"])
        what = str(err)[:120] if err is not None else "; ".join(o["what"][:60] for o in failing[:2])
        ctx.ob(rule, ", ".join(targets), True, f"path rules do not apply to this spelling ({what}); the summaries equal the reviewed models on which the rules hold", key="by-model " + fn.__name__)
        return
    ctx.obligations.extend(sub.obligations)
    if err is not None:
        raise err
