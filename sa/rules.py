"""Shared fact extractors used by several property checkers (all purely syntactic/dataflow on ast + CFG)."""

from __future__ import annotations

import ast

from .cfg import CFG, Node, cfg_of
from .model import AnalysisError, call_name, calls_in, dotted, norm, walk_no_nested


# --------------------------------------------------------------------------- small helpers
def names_in(expr) -> set[str]:
    """Dotted names read in an expression (self.x.y counted as 'self.x.y' and its prefixes)."""
    out = set()
    for n in walk_no_nested(expr):
        if isinstance(n, (ast.Name, ast.Attribute)):
            d = dotted(n)
            if d:
                out.add(d)
    return out


def assigned_targets(stmt) -> list[ast.AST]:
    if isinstance(stmt, ast.Assign):
        out = []
        for t in stmt.targets:
            out.extend(t.elts if isinstance(t, (ast.Tuple, ast.List)) else [t])
        return out
    if isinstance(stmt, (ast.AugAssign, ast.AnnAssign)):
        return [stmt.target]
    if isinstance(stmt, (ast.For, ast.AsyncFor)):
        t = stmt.target
        return list(t.elts) if isinstance(t, (ast.Tuple, ast.List)) else [t]
    if isinstance(stmt, ast.NamedExpr):
        return [stmt.target]
    return []


def is_const(expr, value) -> bool:
    return isinstance(expr, ast.Constant) and expr.value is value or (
        isinstance(expr, ast.Constant) and type(expr.value) is type(value) and expr.value == value
    )


def func_stmts(func_node):
    """All statements of a function (not nested defs)."""
    for n in walk_no_nested(func_node):
        if isinstance(n, ast.stmt) and n is not func_node:
            if isinstance(n, ast.Expr) and isinstance(n.value, ast.Constant):
                continue  # docstring / bare constant
            yield n


def taint(func_node, is_seed) -> set[str]:
    """Flow-insensitive taint: names (dotted) whose value may derive from an expression for which is_seed(expr)
    holds.  Assignment `x = e` taints x when e contains a seed or a tainted name; `x op= e` likewise; for-targets are
    tainted by their iterable; comprehension variables by their iterables (handled by treating the whole expression)."""
    tainted: set[str] = set()

    def expr_tainted(e) -> bool:
        for n in walk_no_nested(e):
            if is_seed(n):
                return True
            if isinstance(n, (ast.Name, ast.Attribute)):
                d = dotted(n)
                if d and d in tainted:
                    return True
        return False

    changed = True
    while changed:
        changed = False
        for st in func_stmts(func_node):
            src = None
            if isinstance(st, ast.Assign):
                src = st.value
            elif isinstance(st, ast.AugAssign):
                src = st.value
            elif isinstance(st, ast.AnnAssign) and st.value is not None:
                src = st.value
            elif isinstance(st, (ast.For, ast.AsyncFor)):
                src = st.iter
            if src is None:
                continue
            if expr_tainted(src):
                for t in assigned_targets(st):
                    base = t
                    while isinstance(base, (ast.Subscript, ast.Starred)):
                        base = base.value
                    d = dotted(base)
                    if d and d not in tainted:
                        tainted.add(d)
                        changed = True
    return tainted


def expr_depends_on(expr, tainted: set[str], is_seed=lambda n: False) -> bool:
    for n in walk_no_nested(expr):
        if is_seed(n):
            return True
        if isinstance(n, (ast.Name, ast.Attribute)):
            d = dotted(n)
            if d and d in tainted:
                return True
    return False


# --------------------------------------------------------------------------- branch polarity
def failure_branch_of_call_test(test_node: Node, call: ast.Call):
    """For a CFG test node whose condition is `call`, `not call`, or a single-use alias of it, return the branch
    label ('true'/'false') taken when the call's result is FALSY; None if the test is not of that shape."""
    t = test_node.ast
    if t is call:
        return "false"
    if isinstance(t, ast.UnaryOp) and isinstance(t.op, ast.Not) and t.operand is call:
        return "true"
    if isinstance(t, ast.Compare) and len(t.ops) == 1 and t.left is call:
        op, rhs = t.ops[0], t.comparators[0]
        if isinstance(rhs, ast.Constant):
            if isinstance(op, (ast.Is, ast.Eq)) and rhs.value is False:
                return "true"
            if isinstance(op, (ast.Is, ast.Eq)) and rhs.value is True:
                return "false"
            if isinstance(op, (ast.IsNot, ast.NotEq)) and rhs.value is False:
                return "false"
            if isinstance(op, (ast.IsNot, ast.NotEq)) and rhs.value is True:
                return "true"
    return None


def truthiness_tests(cfg: CFG, func_node, call: ast.Call):
    """Find the CFG test node(s) that examine the truthiness of `call`'s result: directly in an if/while condition or
    through a variable assigned exactly from the call and tested later.  Returns [(test_node, falsy_branch_label)]."""
    out = []
    for n in cfg.nodes:
        if n.kind == "test":
            lab = failure_branch_of_call_test(n, call)
            if lab:
                out.append((n, lab))
    if out:
        return out
    # alias: v = call
    alias = None
    for st in func_stmts(func_node):
        if isinstance(st, ast.Assign) and st.value is call and len(st.targets) == 1 and isinstance(st.targets[0], ast.Name):
            alias = st.targets[0].id
    if alias:
        for n in cfg.nodes:
            if n.kind != "test":
                continue
            t = n.ast
            if isinstance(t, ast.Name) and t.id == alias:
                out.append((n, "false"))
            elif isinstance(t, ast.UnaryOp) and isinstance(t.op, ast.Not) and isinstance(t.operand, ast.Name) and t.operand.id == alias:
                out.append((n, "true"))
    return out


def branch_marker(test_node: Node, label: str) -> Node:
    for s, l in test_node.succ:
        if l == label:
            return s
    raise AnalysisError(f"test node without {label} branch: {test_node}")


# --------------------------------------------------------------------------- exact slicing partition
def partition_facts(expr):
    """Facts about `[X[i : i + W] for i in range(A, len(X), S)]` (list comprehension or generator).

    Returns dict(base, start, stop_base, step, width, ok, why) or None if expr is not such a comprehension."""
    if not isinstance(expr, (ast.ListComp, ast.GeneratorExp)) or len(expr.generators) != 1:
        return None
    gen = expr.generators[0]
    if gen.ifs or not isinstance(gen.target, ast.Name):
        return None
    it = gen.iter
    if not (isinstance(it, ast.Call) and dotted(it.func) == "range" and not it.keywords):
        return None
    elt = expr.elt
    if not (isinstance(elt, ast.Subscript) and isinstance(elt.slice, ast.Slice)):
        return None
    var = gen.target.id
    args = it.args
    facts = {"base": norm(elt.value), "ok": True, "why": []}
    if len(args) == 3:
        start, stop, step = args
    else:
        facts["ok"] = False
        facts["why"].append(f"range() has {len(args)} arguments; a chunked partition needs start, stop, step")
        return facts
    sl = elt.slice
    if not (isinstance(start, ast.Constant) and start.value == 0):
        facts["ok"] = False
        facts["why"].append(f"range start is {norm(start)}, not 0")
    if not (isinstance(stop, ast.Call) and dotted(stop.func) == "len" and len(stop.args) == 1 and norm(stop.args[0]) == norm(elt.value)):
        facts["ok"] = False
        facts["why"].append(f"range stop is {norm(stop)}, not len({norm(elt.value)})")
    if not (isinstance(sl.lower, ast.Name) and sl.lower.id == var):
        facts["ok"] = False
        facts["why"].append(f"slice lower bound is {norm(sl.lower) if sl.lower else 'missing'}, not the loop variable")
    width = None
    up = sl.upper
    if isinstance(up, ast.BinOp) and isinstance(up.op, ast.Add):
        if isinstance(up.left, ast.Name) and up.left.id == var:
            width = up.right
        elif isinstance(up.right, ast.Name) and up.right.id == var:
            width = up.left
    if width is None:
        facts["ok"] = False
        facts["why"].append(f"slice upper bound is {norm(up) if up else 'missing'}, not loop variable + width")
    elif norm(width) != norm(step):
        facts["ok"] = False
        facts["why"].append(f"slice width {norm(width)} differs from range step {norm(step)} (gap or overlap)")
    if sl.step is not None:
        facts["ok"] = False
        facts["why"].append("slice has a stride")
    facts["step"] = norm(step)
    facts["width"] = norm(width) if width is not None else None
    return facts


def find_partitions(func_node):
    out = []
    for n in walk_no_nested(func_node):
        f = partition_facts(n)
        if f is not None:
            out.append((n, f))
        elif isinstance(n, ast.For) and isinstance(n.target, ast.Name) and isinstance(n.iter, ast.Call) and dotted(n.iter.func) == "range" and not n.orelse:
            # the same partition written as a loop that slices as it goes: `for i in range(0, len(X), S): ... X[i : i + S] ...`
            slices = [x for b in n.body for x in ast.walk(b) if isinstance(x, ast.Subscript) and isinstance(x.slice, ast.Slice)
                      and any(isinstance(y, ast.Name) and y.id == n.target.id for y in ast.walk(x.slice))]
            if len(slices) == 1:
                comp = ast.ListComp(elt=slices[0], generators=[ast.comprehension(target=n.target, iter=n.iter, ifs=[], is_async=0)])
                f = partition_facts(comp)
                if f is not None:
                    f["inline_slice"] = slices[0]
                    out.append((n, f))
    return out


# --------------------------------------------------------------------------- conditions
def cond_is_emptiness_continue(test, var_names: set[str]):
    """Does `while test` continue exactly while the buffer named in var_names is non-empty?
    Returns (recognised, exact).  recognised=False -> unknown shape."""
    t = test
    if isinstance(t, ast.Name) and t.id in var_names:
        return True, True
    if isinstance(t, ast.Compare) and len(t.ops) == 1:
        left, op, right = t.left, t.ops[0], t.comparators[0]
        if isinstance(left, ast.Call) and dotted(left.func) == "len" and len(left.args) == 1 and dotted(left.args[0]) in var_names and isinstance(right, ast.Constant) and isinstance(right.value, int):
            c = right.value
            if isinstance(op, ast.Gt):
                return True, c == 0
            if isinstance(op, ast.GtE):
                return True, c == 1
            if isinstance(op, ast.NotEq):
                return True, c == 0
            return True, False
        if isinstance(right, ast.Call) and dotted(right.func) == "len" and len(right.args) == 1 and dotted(right.args[0]) in var_names and isinstance(left, ast.Constant) and isinstance(left.value, int):
            c = left.value
            if isinstance(op, ast.Lt):
                return True, c == 0
            if isinstance(op, ast.LtE):
                return True, c == 1
            if isinstance(op, ast.NotEq):
                return True, c == 0
            return True, False
    return False, False


# --------------------------------------------------------------------------- local name resolution
def single_assignments(func_node) -> dict:
    """{local name: value expr} for names assigned exactly once in the function (plain `name = expr`)."""
    seen: dict[str, list] = {}
    for st in func_stmts(func_node):
        if isinstance(st, ast.Assign):
            for t in st.targets:
                if isinstance(t, ast.Name):
                    seen.setdefault(t.id, []).append(st.value)
        elif isinstance(st, (ast.AugAssign, ast.For)):
            for t in assigned_targets(st):
                if isinstance(t, ast.Name):
                    seen.setdefault(t.id, []).append(None)
    # a name whose object is mutated in place (items.append(x), d[k] = v) does not stand for its initial expression
    mutated = set()
    for n in walk_no_nested(func_node):
        if isinstance(n, ast.Call) and isinstance(n.func, ast.Attribute) and isinstance(n.func.value, ast.Name) and n.func.attr in ("append", "extend", "insert", "pop", "remove", "clear", "update", "add", "setdefault", "sort", "reverse"):
            mutated.add(n.func.value.id)
        if isinstance(n, ast.Subscript) and isinstance(n.ctx, (ast.Store, ast.Del)) and isinstance(n.value, ast.Name):
            mutated.add(n.value.id)
    return {k: v[0] for k, v in seen.items() if k not in mutated and v[0] is not None and all(x is not None and norm(x) == norm(v[0]) for x in v)}


def expand(func_node, expr, depth=3) -> str:
    """Text of expr with once-assigned local names replaced by the text of their defining expressions."""
    defs = single_assignments(func_node)

    class Sub(ast.NodeTransformer):
        def visit_Name(self, node):
            if isinstance(node.ctx, ast.Load) and node.id in defs:
                return ast.copy_location(_copy(defs[node.id]), node)
            return node

    import copy

    def _copy(n):
        return copy.deepcopy(n)

    cur = copy.deepcopy(expr)
    for _ in range(depth):
        new = Sub().visit(copy.deepcopy(cur))
        if norm(new) == norm(cur):
            break
        cur = new
    return norm(cur)


def expand_ast(func_node, expr, depth=3):
    """expand() as an expression tree."""
    return ast.parse(expand(func_node, expr, depth), mode="eval").body


def text_template(expr):
    """A text-building expression as pieces [("lit", text) | ("fmt", value text, format spec)], adjacent literals merged:
    f"s{a:02d}", "s" + format(a, "02d") and "s" + f"{a:02d}" are the same template.  None for anything else."""
    def pieces(e):
        if isinstance(e, ast.Constant) and isinstance(e.value, str):
            return [("lit", e.value)]
        if isinstance(e, ast.JoinedStr):
            out = []
            for v in e.values:
                if isinstance(v, ast.Constant):
                    out.append(("lit", str(v.value)))
                elif isinstance(v, ast.FormattedValue) and v.conversion == -1:
                    spec = ""
                    if v.format_spec is not None:
                        if not (isinstance(v.format_spec, ast.JoinedStr) and all(isinstance(x, ast.Constant) for x in v.format_spec.values)):
                            return None
                        spec = "".join(str(x.value) for x in v.format_spec.values)
                    out.append(("fmt", norm(v.value), spec))
                else:
                    return None
            return out
        if isinstance(e, ast.BinOp) and isinstance(e.op, ast.Add):
            a, b = pieces(e.left), pieces(e.right)
            return None if a is None or b is None else a + b
        if isinstance(e, ast.Call) and isinstance(e.func, ast.Name) and e.func.id == "format" and not e.keywords and 1 <= len(e.args) <= 2:
            if len(e.args) == 2 and not (isinstance(e.args[1], ast.Constant) and isinstance(e.args[1].value, str)):
                return None
            return [("fmt", norm(e.args[0]), e.args[1].value if len(e.args) == 2 else "")]
        if isinstance(e, ast.Call) and isinstance(e.func, ast.Name) and e.func.id == "str" and len(e.args) == 1 and not e.keywords:
            return [("fmt", norm(e.args[0]), "")]
        return None

    ps = pieces(expr)
    if ps is None:
        return None
    merged = []
    for p in ps:
        if p[0] == "lit" and merged and merged[-1][0] == "lit":
            merged[-1] = ("lit", merged[-1][1] + p[1])
        elif not (p[0] == "lit" and p[1] == ""):
            merged.append(p)
    return merged


def literal(func_node, expr):
    """(True, value) when expr is a literal or a local name bound once to a literal; (False, None) otherwise."""
    try:
        return True, ast.literal_eval(expand(func_node, expr))
    except (ValueError, SyntaxError, TypeError, MemoryError, RecursionError):
        return False, None


def reaching_values(func_node, cfg: CFG, use: Node, expr):
    """The expressions a use may evaluate to, with the branch conditions under which each is chosen.

    A name assigned once expands to its definition; a name assigned on several branches (`if c: x = A else: x = B`)
    yields one (expanded value, conditions dominating that assignment + conditions dominating the use) pair per
    assignment; a conditional expression `A if c else B` yields both arms with c true / false.  Flow-insensitive: every
    assignment of the name in the function counts, which over-approximates the values (never drops one)."""
    use_conds = list(cfg.dominating_conditions(use, derive=True))
    out = []

    def go(e, conds, depth):
        if isinstance(e, ast.IfExp) and depth < 4:
            from .cfg import _facts

            go(e.body, conds + list(_facts(e.test, True)), depth + 1)
            go(e.orelse, conds + list(_facts(e.test, False)), depth + 1)
            return
        if isinstance(e, ast.Name) and depth < 4:
            defs = []
            for n in cfg.real_nodes():
                if n.kind == "stmt" and isinstance(n.ast, ast.Assign) and any(isinstance(t, ast.Name) and t.id == e.id for t in n.ast.targets):
                    defs.append(n)
            if defs:
                for d in defs:
                    go(d.ast.value, conds + list(cfg.dominating_conditions(d, derive=True)), depth + 1)
                return
        full = expand_ast(func_node, e)
        inner = next((x for x in ast.walk(full) if isinstance(x, ast.IfExp)), None)
        if inner is not None and depth < 6:
            from .cfg import _facts

            for arm, truth in ((inner.body, True), (inner.orelse, False)):
                variant = _replace(full, inner, arm)
                go(variant, conds + list(_facts(inner.test, truth)), depth + 1)
            return
        out.append((full, conds))

    def _replace(tree, old, new):
        import copy

        # transform a copy in which `old` is located by its position in the walk
        idx = [i for i, x in enumerate(ast.walk(tree)) if x is old][0]
        cp = copy.deepcopy(tree)
        target = list(ast.walk(cp))[idx]

        class Swap(ast.NodeTransformer):
            def visit_IfExp(self, node):
                return copy.deepcopy(new) if node is target else self.generic_visit(node)

        return ast.fix_missing_locations(Swap().visit(cp))

    go(expr, use_conds, 0)
    return out


MUTATORS = ("append", "extend", "insert", "update", "add", "setdefault", "pop", "remove", "clear", "sort", "reverse", "popitem", "discard", "put", "put_nowait", "appendleft")


def shared_class_state(repo, classes):
    """[(ClassInfo, name, expr, how)]: a mutable object created in a class body (list / dict / set display, or a call of
    list / dict / set / deque / Queue / defaultdict ...) that no constructor in the class's resolution order replaces by
    `self.name = ...`, and that a method of one of the given classes changes in place through `self.name` - the one object
    then belongs to every instance of the class."""
    from .model import call_name, dotted, norm, walk_no_nested

    out = []
    seen = set()
    for cls in classes:
        for owner in cls.mro:
            for name, expr in getattr(owner, "consts", {}).items():
                if (owner.name, name) in seen:
                    continue
                mutable = isinstance(expr, (ast.List, ast.Dict, ast.Set, ast.ListComp, ast.DictComp, ast.SetComp)) or (
                    isinstance(expr, ast.Call) and (call_name(expr) or "").split(".")[-1] in ("list", "dict", "set", "deque", "Queue", "defaultdict", "OrderedDict", "bytearray", "ByteQueue"))
                if not mutable:
                    continue
                seen.add((owner.name, name))
                family = [k for k in classes if owner in k.mro] or [owner]
                rebound = all(any(isinstance(x, (ast.Assign, ast.AnnAssign)) and getattr(x, "value", None) is not None and any((dotted(t) or "") == f"self.{name}" for t in (x.targets if isinstance(x, ast.Assign) else [x.target]))
                                  for k in fam.mro if "__init__" in k.methods for x in walk_no_nested(k.methods["__init__"].node)) for fam in family)
                if rebound:
                    continue
                how = None
                for k in {id(c): c for fam in family for c in fam.mro}.values():
                    for m in getattr(k, "methods", {}).values():
                        for x in ast.walk(m.node):
                            if isinstance(x, ast.Call) and isinstance(x.func, ast.Attribute) and x.func.attr in MUTATORS and (dotted(x.func.value) or "") == f"self.{name}":
                                how = how or f"{m.qualname}: `{norm(x)[:60]}`"
                            elif isinstance(x, ast.Subscript) and isinstance(x.ctx, (ast.Store, ast.Del)) and (dotted(x.value) or "") == f"self.{name}":
                                how = how or f"{m.qualname}: an element of self.{name} is assigned or deleted"
                            elif isinstance(x, ast.AugAssign) and (dotted(x.target) or "") == f"self.{name}":
                                how = how or f"{m.qualname}: `{norm(x)[:60]}`"
                if how:
                    out.append((owner, name, expr, how))
    return out


def shared_default_state(repo, cls):
    """[(FuncInfo, parameter, how)]: methods of the class whose mutable default argument (a list / dict / set display or
    list() / dict() / set() call) is changed in place or handed out, and that some call in the package invokes without
    that argument - the one default object then carries state from call to call (and between objects of the class)."""
    from .model import calls_in, norm

    out = []
    for f in cls.methods.values():
        args = f.node.args
        names = [a.arg for a in args.args]
        defaults = dict(zip(names[len(names) - len(args.defaults):], args.defaults))
        defaults.update({a.arg: d for a, d in zip(args.kwonlyargs, args.kw_defaults) if d is not None})
        for pname, d in defaults.items():
            mutable = isinstance(d, (ast.List, ast.Dict, ast.Set)) or (isinstance(d, ast.Call) and isinstance(d.func, ast.Name) and d.func.id in ("list", "dict", "set", "bytearray") and not d.args)
            if not mutable:
                continue
            how = None
            rebound = any(isinstance(x, ast.Name) and x.id == pname and isinstance(x.ctx, ast.Store) for x in ast.walk(f.node))
            for x in ast.walk(f.node):
                if isinstance(x, ast.Call) and isinstance(x.func, ast.Attribute) and isinstance(x.func.value, ast.Name) and x.func.value.id == pname \
                        and x.func.attr in ("append", "extend", "insert", "update", "add", "setdefault", "pop", "remove", "clear", "sort", "reverse", "popitem", "discard"):
                    how = f"`{norm(x)[:60]}` changes it in place"
                elif isinstance(x, (ast.Subscript,)) and isinstance(x.ctx, (ast.Store, ast.Del)) and isinstance(x.value, ast.Name) and x.value.id == pname:
                    how = "an element of it is assigned"
                elif isinstance(x, ast.AugAssign) and isinstance(x.target, ast.Name) and x.target.id == pname:
                    how = "it is extended in place"
                elif isinstance(x, ast.Return) and x.value is not None and any(isinstance(n, ast.Name) and n.id == pname for n in ast.walk(x.value)):
                    how = how or "it is handed to the caller"
                elif isinstance(x, ast.Assign) and any(isinstance(t, ast.Attribute) for t in x.targets) and isinstance(x.value, ast.Name) and x.value.id == pname:
                    how = how or "it is stored in the object"
            if how is None or (rebound and "in place" not in how and "assigned" not in how):
                continue
            pos = names.index(pname) - (0 if not names or names[0] not in ("self", "cls") else 1) if pname in names else None
            omitted = False
            for g in repo.functions:
                for c in calls_in(g.node):
                    if isinstance(c.func, ast.Attribute) and c.func.attr == f.name or (isinstance(c.func, ast.Name) and c.func.id == f.name):
                        given = any(k.arg == pname for k in c.keywords) or (pos is not None and len(c.args) > pos) or any(isinstance(a, ast.Starred) for a in c.args) or any(k.arg is None for k in c.keywords)
                        if not given:
                            omitted = True
            if omitted or not f.name.startswith("_"):
                out.append((f, pname, how))
    return out

