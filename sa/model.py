"""Engine A: resolved program model of /repo/secsgem built from `ast` only.

Modules, imports (incl. re-exports through package __init__), classes with C3
MRO, class constants (literal evaluation with folding), methods, module
functions.  Nothing is imported or executed.
"""

from __future__ import annotations

import ast
import os
import sys

REPO_ROOT = os.environ.get("SECSGEM_REPO", "/repo")
PKG = "secsgem"

# floors confirmed by hand on the pinned tree; fewer => the parse missed something
MIN_FILES = 360
MIN_FUNCTIONS = 800


class AnalysisError(Exception):
    """The analyser cannot decide (anchor vanished, unknown shape). Exit code 2, never a verdict."""


class NotConst(Exception):
    """Expression is not a compile-time constant the folder understands."""


def dotted(node) -> str | None:
    """Dotted name of a Name/Attribute chain, e.g. self._connection_state.select; None otherwise."""
    parts = []
    while isinstance(node, ast.Attribute):
        parts.append(node.attr)
        node = node.value
    if isinstance(node, ast.Name):
        parts.append(node.id)
        return ".".join(reversed(parts))
    if isinstance(node, ast.Call) and parts:
        # e.g. super().__init__  -> "super().__init__"
        inner = dotted(node.func)
        if inner is not None:
            return inner + "()." + ".".join(reversed(parts))
    return None


def norm(node) -> str:
    """Whitespace/line independent text of a node (used as finding key)."""
    if isinstance(node, str):
        return " ".join(node.split())
    try:
        return " ".join(ast.unparse(node).split())
    except Exception:  # pragma: no cover
        return "<unparse failed>"


def walk_no_nested(node):
    """ast.walk that does not descend into nested function/class definitions or lambdas."""
    stack = [node]
    first = True
    while stack:
        cur = stack.pop()
        if not first and isinstance(cur, (ast.FunctionDef, ast.AsyncFunctionDef, ast.ClassDef, ast.Lambda)):
            continue
        first = False
        yield cur
        stack.extend(reversed(list(ast.iter_child_nodes(cur))))


def calls_in(node, nested=False) -> list[ast.Call]:
    """Calls inside node in evaluation order (arguments before the call that consumes them)."""
    out: list[ast.Call] = []

    def rec(n):
        if not nested and n is not node and isinstance(n, (ast.FunctionDef, ast.AsyncFunctionDef, ast.ClassDef, ast.Lambda)):
            return
        for child in ast.iter_child_nodes(n):
            rec(child)
        if isinstance(n, ast.Call):
            out.append(n)

    rec(node)
    return out


def call_name(call: ast.Call) -> str | None:
    return dotted(call.func)


class Module:
    def __init__(self, name: str, path: str, source: str):
        self.name = name
        self.path = path
        self.source = source
        self.tree = ast.parse(source, filename=path)
        self.is_pkg = os.path.basename(path) == "__init__.py"
        self.imports: dict[str, str] = {}  # local name -> qualified target ("secsgem.common.protocol.Protocol" / module)
        self.defs: dict[str, ast.AST] = {}  # top level class/function/assign value nodes
        self._scan()

    @property
    def package(self) -> str:
        return self.name if self.is_pkg else self.name.rsplit(".", 1)[0]

    def _scan(self):
        def scan_body(body):
            for node in body:
                if isinstance(node, ast.Import):
                    for alias in node.names:
                        if alias.asname:
                            self.imports[alias.asname] = alias.name
                        else:
                            top = alias.name.split(".")[0]
                            self.imports.setdefault(top, top)
                elif isinstance(node, ast.ImportFrom):
                    base = node.module or ""
                    if node.level:
                        pkg_parts = self.package.split(".")
                        if node.level > 1:
                            pkg_parts = pkg_parts[: -(node.level - 1)]
                        base = ".".join(pkg_parts + ([node.module] if node.module else []))
                    for alias in node.names:
                        self.imports[alias.asname or alias.name] = f"{base}.{alias.name}"
                elif isinstance(node, (ast.ClassDef, ast.FunctionDef, ast.AsyncFunctionDef)):
                    self.defs[node.name] = node
                elif isinstance(node, ast.Assign):
                    for tgt in node.targets:
                        if isinstance(tgt, ast.Name):
                            self.defs[tgt.id] = node.value
                elif isinstance(node, ast.AnnAssign) and isinstance(node.target, ast.Name) and node.value is not None:
                    self.defs[node.target.id] = node.value
                elif isinstance(node, ast.If):
                    # `if typing.TYPE_CHECKING:` imports are still useful for type resolution
                    scan_body(node.body)
                    scan_body(node.orelse)
                elif isinstance(node, ast.Try):
                    scan_body(node.body)

        scan_body(self.tree.body)


class FuncInfo:
    def __init__(self, node, module: Module, cls: "ClassInfo | None"):
        self.node = node
        self.module = module
        self.cls = cls
        self.name = node.name
        self.decorators = [dotted(d) or dotted(getattr(d, "func", None)) or "?" for d in node.decorator_list]

    @property
    def qualname(self) -> str:
        return f"{self.cls.name}.{self.name}" if self.cls else f"{self.module.name}.{self.name}"

    @property
    def where(self) -> str:
        return f"{os.path.relpath(self.module.path, REPO_ROOT)}:{self.node.lineno}"

    def __repr__(self):
        return f"<Func {self.qualname}>"


class ClassInfo:
    def __init__(self, node: ast.ClassDef, module: Module, outer: "ClassInfo | None" = None):
        self.node = node
        self.module = module
        self.name = node.name if outer is None else f"{outer.name}.{node.name}"
        self.qualname = f"{module.name}.{self.name}"
        self.base_exprs = [b for b in node.bases]
        self.bases: list[ClassInfo] = []
        self.unresolved_bases: list[str] = []
        self.consts: dict[str, ast.AST] = {}
        self.methods: dict[str, FuncInfo] = {}
        self.mro: list[ClassInfo] = []
        for item in node.body:
            if isinstance(item, (ast.FunctionDef, ast.AsyncFunctionDef)):
                # property setter shares the name; keep the getter (first definition)
                if item.name not in self.methods:
                    self.methods[item.name] = FuncInfo(item, module, self)
                else:
                    self.methods[item.name + "@" + str(item.lineno)] = FuncInfo(item, module, self)
            elif isinstance(item, ast.Assign):
                for tgt in item.targets:
                    if isinstance(tgt, ast.Name):
                        self.consts[tgt.id] = item.value
            elif isinstance(item, ast.AnnAssign) and isinstance(item.target, ast.Name) and item.value is not None:
                self.consts[item.target.id] = item.value

    @property
    def where(self) -> str:
        return f"{os.path.relpath(self.module.path, REPO_ROOT)}:{self.node.lineno}"

    def is_subclass_of(self, other: "ClassInfo | str") -> bool:
        name = other if isinstance(other, str) else other.name
        return any(c.name == name for c in self.mro)

    def find_method(self, name: str) -> FuncInfo | None:
        for cls in self.mro:
            # name-mangled private lookup: __x inside class C is C-local
            if name in cls.methods:
                return cls.methods[name]
        return None

    def find_const_expr(self, name: str):
        for cls in self.mro:
            if name in cls.consts:
                return cls, cls.consts[name]
        return None, None

    def __repr__(self):
        return f"<Class {self.name}>"


class Repo:
    """All parsed modules of the package plus lookup helpers."""

    def __init__(self, root: str | None = None, overrides: dict | None = None, share: "Repo | None" = None):
        """overrides: {path relative to root: source text} replaces the file content (in-memory variant of the tree);
        share: an already loaded Repo of the same root whose parsed modules are re-used for the unchanged files."""
        self.root = root or REPO_ROOT
        self._overrides = overrides or {}
        self._share = share
        self.modules: dict[str, Module] = {}
        self.classes: dict[str, ClassInfo] = {}  # qualname -> info
        self.by_short: dict[str, list[ClassInfo]] = {}
        self.functions: list[FuncInfo] = []
        self._load()
        self._link()
        from . import callnorm

        fresh = [m for m in self.modules.values() if share is None or share.modules.get(m.name) is not m]
        callnorm.canonicalise(self, fresh)

    # ------------------------------------------------------------------ integer-valued attributes
    @property
    def int_texts(self) -> set:
        """Texts `self.<name>` of attributes every store of which, anywhere in the package, is an integer-valued expression
        (integer literal, len(), int(), sums/differences/products of those or of the attribute itself).  Comparisons between
        such values may be rewritten with integer arithmetic (`a + 1 < b` is `not b < a + 2`), see sa.conds."""
        return self._typed_texts("int")

    @property
    def seq_texts(self) -> set:
        """Texts `self.<name>` of attributes every store of which, anywhere in the package, is a list / dict / str / bytes
        valued expression (display, comprehension, list()/dict()/bytes()/bytearray()/str() call, text literal, sums of
        those or of the attribute itself): their truthiness is `len(x) > 0`."""
        return self._typed_texts("seq")

    def class_seq_attrs(self, cls: "ClassInfo") -> set:
        """Texts `self.<name>` that hold a list / dict / text in every object that runs the methods of `cls` (cls itself or
        a subclass): every store `self.<name> = E` in the class cone has E sequence-valued - a display, a comprehension,
        list()/dict()/sorted()/..., or a call `self.m(...)` whose implementation in that class (and in every subclass
        that overrides it) returns such expressions on all paths."""
        cache = self.__dict__.setdefault("_class_seq_attrs", {})
        if cls.qualname in cache:
            return cache[cls.qualname]

        def seq_expr(e) -> bool:
            if isinstance(e, (ast.List, ast.Dict, ast.ListComp, ast.DictComp, ast.JoinedStr, ast.Set, ast.SetComp)):
                return True
            if isinstance(e, ast.Constant):
                return isinstance(e.value, (str, bytes))
            return isinstance(e, ast.Call) and isinstance(e.func, ast.Name) and e.func.id in ("list", "dict", "bytes", "bytearray", "str", "set", "sorted")

        def method_returns_seq(owner: "ClassInfo", name: str) -> bool:
            m = owner.find_method(name)
            if m is None:
                return False
            rets = [x for x in walk_no_nested(m.node) if isinstance(x, ast.Return)]

            def local_seq(name: str) -> bool:
                """A local every binding of which in this method is a sequence-valued expression (a list built up and returned)."""
                binds = [x for x in walk_no_nested(m.node) if isinstance(x, (ast.Assign, ast.AnnAssign, ast.AugAssign, ast.For, ast.With, ast.NamedExpr, ast.comprehension))]
                vals = []
                for b in binds:
                    tl = b.targets if isinstance(b, ast.Assign) else [getattr(b, "target", None)] if not isinstance(b, ast.With) else [i.optional_vars for i in b.items]
                    for t in tl:
                        if t is None:
                            continue
                        for x in ast.walk(t):
                            if isinstance(x, ast.Name) and x.id == name:
                                vals.append(b.value if isinstance(b, (ast.Assign, ast.AnnAssign)) and x is t else None)
                if name in [a.arg for a in m.node.args.args + m.node.args.kwonlyargs]:
                    return False
                return bool(vals) and all(v is not None and seq_expr(v) for v in vals)

            return bool(rets) and all(r.value is not None and (seq_expr(r.value) or (isinstance(r.value, ast.Name) and local_seq(r.value.id))) for r in rets)

        family = [cls] + [c for c in self.classes.values() if cls in c.mro and c is not cls]
        stores: dict[str, list] = {}
        for member in family:
            for k in member.mro:
                for m in k.methods.values():
                    for n in ast.walk(m.node):
                        if isinstance(n, ast.Assign):
                            for t in n.targets:
                                if isinstance(t, ast.Attribute) and isinstance(t.value, ast.Name) and t.value.id == "self":
                                    stores.setdefault(t.attr, []).append((member, n.value))
                        elif isinstance(n, (ast.AugAssign, ast.AnnAssign)) and isinstance(n.target, ast.Attribute) and isinstance(n.target.value, ast.Name) and n.target.value.id == "self":
                            stores.setdefault(n.target.attr, []).append((member, None))
                        elif isinstance(n, ast.Call) and isinstance(n.func, ast.Name) and n.func.id == "setattr":
                            stores.setdefault("*", []).append((member, None))
        out = set()
        if "*" not in stores:
            for attr, vals in stores.items():
                ok = True
                for member, e in vals:
                    if e is not None and seq_expr(e):
                        continue
                    if e is not None and isinstance(e, ast.Call) and isinstance(e.func, ast.Attribute) and isinstance(e.func.value, ast.Name) and e.func.value.id == "self" and method_returns_seq(member, e.func.attr):
                        continue
                    ok = False
                    break
                if ok:
                    out.add(f"self.{attr}")
        cache[cls.qualname] = out
        return out

    @property
    def str_attrs(self) -> set:
        """Attribute names every store of which, anywhere in the package (class-level constant or `x.<name> = ...`), is a
        text literal: their value is a str whatever object they are read from (`cls._struct_code`, `self.coding`)."""
        if getattr(self, "_str_attrs", None) is None:
            vals: dict[str, list] = {}
            for mod in self.modules.values():
                for n in ast.walk(mod.tree):
                    if isinstance(n, ast.ClassDef):
                        for st in n.body:
                            if isinstance(st, ast.Assign):
                                for t in st.targets:
                                    if isinstance(t, ast.Name):
                                        vals.setdefault(t.id, []).append(st.value)
                            elif isinstance(st, ast.AnnAssign) and isinstance(st.target, ast.Name):
                                vals.setdefault(st.target.id, []).append(st.value)
                            elif isinstance(st, (ast.FunctionDef, ast.AsyncFunctionDef)):
                                vals.setdefault(st.name, []).append(None)
                    targets, value = [], None
                    if isinstance(n, ast.Assign):
                        targets, value = n.targets, n.value
                    elif isinstance(n, (ast.AugAssign, ast.AnnAssign)):
                        targets, value = [n.target], None if isinstance(n, ast.AugAssign) else n.value
                    elif isinstance(n, (ast.For, ast.comprehension, ast.With, ast.NamedExpr, ast.Delete)):
                        tl = [n.target] if hasattr(n, "target") else (n.targets if isinstance(n, ast.Delete) else [i.optional_vars for i in n.items if i.optional_vars is not None])
                        for t in tl:
                            for x in ast.walk(t):
                                if isinstance(x, ast.Attribute):
                                    vals.setdefault(x.attr, []).append(None)
                        continue
                    for t in targets:
                        for x in ([t] if not isinstance(t, (ast.Tuple, ast.List)) else ast.walk(t)):
                            if isinstance(x, ast.Attribute):
                                vals.setdefault(x.attr, []).append(value if x is t else None)
                    if isinstance(n, ast.Call) and isinstance(n.func, ast.Name) and n.func.id == "setattr":
                        if len(n.args) >= 2 and isinstance(n.args[1], ast.Constant) and isinstance(n.args[1].value, str):
                            vals.setdefault(n.args[1].value, []).append(None)
            self._str_attrs = {k for k, v in vals.items() if v and all(isinstance(x, ast.Constant) and isinstance(x.value, str) for x in v)}
        return self._str_attrs

    def _typed_texts(self, kind: str) -> set:
        cache = "_int_texts" if kind == "int" else "_seq_texts"
        if getattr(self, cache, None) is None:
            stores: dict[str, list] = {}

            def is_seq(e, name) -> bool:
                if isinstance(e, (ast.List, ast.Dict, ast.ListComp, ast.DictComp, ast.JoinedStr, ast.Tuple, ast.Set, ast.SetComp)):
                    return True
                if isinstance(e, ast.Constant):
                    return isinstance(e.value, (str, bytes))
                if isinstance(e, ast.Call) and isinstance(e.func, ast.Name) and e.func.id in ("list", "dict", "bytes", "bytearray", "str", "tuple", "set", "sorted"):
                    return True
                if isinstance(e, ast.BinOp) and isinstance(e.op, ast.Add):
                    return is_seq(e.left, name) and is_seq(e.right, name)
                if isinstance(e, ast.Attribute) and e.attr == name:
                    return True
                return False

            def is_int(e, name) -> bool:
                if kind == "seq":
                    return is_seq(e, name)
                if isinstance(e, ast.Constant):
                    return isinstance(e.value, int) and not isinstance(e.value, bool)
                if isinstance(e, ast.Call) and isinstance(e.func, ast.Name) and e.func.id in ("len", "int", "ord") and not e.keywords:
                    return True
                if isinstance(e, ast.UnaryOp) and isinstance(e.op, (ast.USub, ast.UAdd)):
                    return is_int(e.operand, name)
                if isinstance(e, ast.BinOp) and isinstance(e.op, (ast.Add, ast.Sub, ast.Mult)):
                    return is_int(e.left, name) and is_int(e.right, name)
                if isinstance(e, ast.Attribute) and e.attr == name:
                    return True
                return False

            for mod in self.modules.values():
                for n in ast.walk(mod.tree):
                    targets, value = [], None
                    if isinstance(n, ast.Assign):
                        targets, value = n.targets, n.value
                    elif isinstance(n, (ast.AugAssign, ast.AnnAssign)):
                        targets, value = [n.target], n.value
                        if isinstance(n, ast.AugAssign) and not isinstance(n.op, (ast.Add, ast.Sub, ast.Mult) if kind == "int" else (ast.Add,)):
                            value = None
                    elif isinstance(n, (ast.For, ast.comprehension, ast.With, ast.NamedExpr, ast.Delete)):
                        tl = [n.target] if hasattr(n, "target") else (n.targets if isinstance(n, ast.Delete) else [i.optional_vars for i in n.items if i.optional_vars is not None])
                        for t in tl:
                            for x in ast.walk(t):
                                if isinstance(x, ast.Attribute):
                                    stores.setdefault(x.attr, []).append((None, None))
                        continue
                    for t in targets:
                        for x in ([t] if not isinstance(t, (ast.Tuple, ast.List)) else ast.walk(t)):
                            if isinstance(x, ast.Attribute):
                                stores.setdefault(x.attr, []).append((value if x is t else None, x.attr))
                    if isinstance(n, ast.ClassDef):
                        for st in n.body:  # class-level defaults are read through the instance too
                            if isinstance(st, ast.Assign):
                                for t in st.targets:
                                    if isinstance(t, ast.Name):
                                        stores.setdefault(t.id, []).append((st.value, t.id))
                            elif isinstance(st, ast.AnnAssign) and isinstance(st.target, ast.Name) and st.value is not None:
                                stores.setdefault(st.target.id, []).append((st.value, st.target.id))
                            elif isinstance(st, (ast.FunctionDef, ast.AsyncFunctionDef)):
                                stores.setdefault(st.name, []).append((None, None))  # a method / property of that name
            # setattr with a computed name may store anything into the objects of that class family
            tainted: set = set()
            everything = False
            owners: dict[str, set] = {}  # attribute name -> classes whose methods store self.<name>
            for cls in self.classes.values():
                for m in cls.methods.values():
                    for n in ast.walk(m.node):
                        if isinstance(n, ast.Attribute) and isinstance(n.ctx, (ast.Store, ast.Del)) and isinstance(n.value, ast.Name) and n.value.id == "self":
                            owners.setdefault(n.attr, set()).add(cls.qualname)
                        if isinstance(n, ast.Call) and isinstance(n.func, ast.Name) and n.func.id == "setattr" and len(n.args) >= 2:
                            if isinstance(n.args[1], ast.Constant) and isinstance(n.args[1].value, str):
                                stores.setdefault(n.args[1].value, []).append((None, None))
                                continue
                            recv = n.args[0]
                            targets_cls = []
                            if isinstance(recv, ast.Name) and recv.id == "self":
                                targets_cls = [cls]
                            elif isinstance(recv, ast.Attribute) and isinstance(recv.value, ast.Name) and recv.value.id == "self":
                                for m2 in cls.methods.values():
                                    for a2 in ast.walk(m2.node):
                                        if isinstance(a2, ast.Assign) and any(norm(t) == norm(recv) for t in a2.targets) and isinstance(a2.value, ast.Call):
                                            tc = self.resolve(cls.module, dotted(a2.value.func) or "")
                                            if isinstance(tc, ClassInfo):
                                                targets_cls.append(tc)
                            if not targets_cls:
                                everything = True
                            for tc in targets_cls:
                                tainted.add(tc.qualname)
                                tainted.update(c.qualname for c in tc.mro)
                                tainted.update(c.qualname for c in self.classes.values() if tc in c.mro)
            seen_in_methods = sum(1 for cls in self.classes.values() for m in cls.methods.values() for n in ast.walk(m.node)
                                  if isinstance(n, ast.Call) and isinstance(n.func, ast.Name) and n.func.id == "setattr")
            in_tree = sum(1 for mod in self.modules.values() for n in ast.walk(mod.tree)
                          if isinstance(n, ast.Call) and isinstance(n.func, ast.Name) and n.func.id == "setattr")
            if in_tree > seen_in_methods or any("__dict__" in ast.dump(n) for mod in self.modules.values() for n in ast.walk(mod.tree) if isinstance(n, ast.Attribute) and n.attr == "__dict__" and isinstance(n.ctx, ast.Store)):
                everything = True  # a setattr outside the methods looked at
            result = set()
            if not everything:
                result = {f"self.{name}" for name, vals in stores.items()
                          if vals and all(v is not None and is_int(v, name) for v, _ in vals) and owners.get(name) and not (owners[name] & tainted)}
            setattr(self, cache, result)
        return getattr(self, cache)

    # ------------------------------------------------------------------ loading
    def _load(self):
        pkg_root = os.path.join(self.root, PKG)
        if not os.path.isdir(pkg_root):
            raise AnalysisError(f"package directory {pkg_root} not found")
        for dirpath, dirnames, filenames in os.walk(pkg_root):
            dirnames[:] = sorted(d for d in dirnames if d != "__pycache__")
            for fn in sorted(filenames):
                if not fn.endswith(".py"):
                    continue
                path = os.path.join(dirpath, fn)
                rel = os.path.relpath(path, self.root)[:-3].split(os.sep)
                if rel[-1] == "__init__":
                    rel = rel[:-1]
                name = ".".join(rel)
                relpath = os.path.relpath(path, self.root)
                if relpath in self._overrides:
                    source = self._overrides[relpath]
                elif self._share is not None and name in self._share.modules:
                    self.modules[name] = self._share.modules[name]
                    continue
                else:
                    with open(path, encoding="utf-8") as handle:
                        source = handle.read()
                try:
                    self.modules[name] = Module(name, path, source)
                except SyntaxError as exc:
                    raise AnalysisError(f"{path} does not parse: {exc}") from exc
        for mod in self.modules.values():
            for node in mod.tree.body:
                self._collect(node, mod, None)
        nfunc = len(self.functions)
        if len(self.modules) < MIN_FILES or nfunc < MIN_FUNCTIONS:
            raise AnalysisError(
                f"parsed only {len(self.modules)} files / {nfunc} functions (floors {MIN_FILES}/{MIN_FUNCTIONS})",
            )

    def _collect(self, node, mod: Module, outer: ClassInfo | None):
        if isinstance(node, ast.ClassDef):
            info = ClassInfo(node, mod, outer)
            self.classes[info.qualname] = info
            self.by_short.setdefault(info.name, []).append(info)
            self.functions.extend(info.methods.values())
            for item in node.body:
                if isinstance(item, ast.ClassDef):
                    self._collect(item, mod, info)
        elif isinstance(node, (ast.FunctionDef, ast.AsyncFunctionDef)) and outer is None:
            self.functions.append(FuncInfo(node, mod, None))
        elif isinstance(node, ast.If):
            for item in node.body + node.orelse:
                self._collect(item, mod, outer)

    def read_text(self, relpath: str) -> str:
        """Content of a file of the analysed tree (honours in-memory overrides of variant trees)."""
        if relpath in self._overrides:
            return self._overrides[relpath]
        with open(os.path.join(self.root, relpath), encoding="utf-8") as handle:
            return handle.read()

    # ------------------------------------------------------------------ name resolution
    def resolve(self, mod: Module, name: str, _depth=0):
        """Resolve dotted `name` as seen from module `mod` to a ClassInfo, FuncInfo, Module or AST value."""
        if _depth > 12:
            return None
        parts = name.split(".")
        head, rest = parts[0], parts[1:]
        target = None
        if head in mod.defs:
            node = mod.defs[head]
            if isinstance(node, ast.ClassDef):
                target = self.classes.get(f"{mod.name}.{head}")
            elif isinstance(node, (ast.FunctionDef, ast.AsyncFunctionDef)):
                target = next((f for f in self.functions if f.node is node), None)
            else:
                target = node
        elif head in mod.imports:
            target = self._resolve_qualified(mod.imports[head], _depth + 1)
        elif head == PKG and PKG in self.modules:
            target = self.modules[PKG]
        if target is None:
            return None
        for attr in rest:
            if isinstance(target, Module):
                sub = f"{target.name}.{attr}"
                if attr in target.defs or attr in target.imports:
                    target = self.resolve(target, attr, _depth + 1)
                elif sub in self.modules:
                    target = self.modules[sub]
                else:
                    return None
            elif isinstance(target, ClassInfo):
                nested = self.classes.get(f"{target.module.name}.{target.name}.{attr}")
                if nested is not None:
                    target = nested
                else:
                    return (target, attr)  # class attribute reference
            else:
                return None
            if target is None:
                return None
        return target

    def _resolve_qualified(self, qual: str, _depth=0):
        if qual in self.modules:
            return self.modules[qual]
        parts = qual.split(".")
        for cut in range(len(parts) - 1, 0, -1):
            modname = ".".join(parts[:cut])
            if modname in self.modules:
                return self.resolve(self.modules[modname], ".".join(parts[cut:]), _depth + 1)
        return None

    def _link(self):
        for info in self.classes.values():
            for base in info.base_exprs:
                expr = base.value if isinstance(base, ast.Subscript) else base
                name = dotted(expr)
                target = self.resolve(info.module, name) if name else None
                if isinstance(target, ClassInfo):
                    info.bases.append(target)
                else:
                    info.unresolved_bases.append(name or norm(expr))
        for info in self.classes.values():
            info.mro = self._c3(info, ())

    def _c3(self, info: ClassInfo, seen) -> list[ClassInfo]:
        if info in seen:
            raise AnalysisError(f"inheritance cycle at {info.name}")
        seqs = [self._c3(b, seen + (info,)) for b in info.bases] + [list(info.bases)]
        result = [info]
        seqs = [list(s) for s in seqs if s]
        while seqs:
            for seq in seqs:
                cand = seq[0]
                if not any(cand in s[1:] for s in seqs):
                    break
            else:
                raise AnalysisError(f"inconsistent MRO for {info.name}")
            result.append(cand)
            for seq in seqs:
                if seq and seq[0] is cand:
                    del seq[0]
            seqs = [s for s in seqs if s]
        return result

    # ------------------------------------------------------------------ lookups
    def cls(self, name: str) -> ClassInfo:
        if name in self.classes:
            return self.classes[name]
        cands = self.by_short.get(name, [])
        if len(cands) == 1:
            return cands[0]
        if not cands:
            raise AnalysisError(f"anchor class {name} not found in {self.root}")
        raise AnalysisError(f"class name {name} is ambiguous: {[c.qualname for c in cands]}")

    def has_cls(self, name: str) -> bool:
        return name in self.classes or len(self.by_short.get(name, [])) == 1

    def method(self, cls_name: str, meth: str, inherited=True) -> FuncInfo:
        cls = self.cls(cls_name)
        found = cls.find_method(meth) if inherited else cls.methods.get(meth)
        if found is None:
            raise AnalysisError(f"anchor method {cls_name}.{meth} not found")
        return found

    def module(self, name: str) -> Module:
        if name not in self.modules:
            raise AnalysisError(f"anchor module {name} not found")
        return self.modules[name]

    def module_func(self, modname: str, func: str) -> FuncInfo:
        mod = self.module(modname)
        for f in self.functions:
            if f.module is mod and f.cls is None and f.name == func:
                return f
        raise AnalysisError(f"anchor function {modname}.{func} not found")

    def subclasses(self, name: str, strict=True) -> list[ClassInfo]:
        base = self.cls(name)
        return [c for c in self.classes.values() if base in c.mro and (not strict or c is not base)]

    # ------------------------------------------------------------------ constants
    def const(self, cls: ClassInfo | str, name: str):
        """Value of class attribute `name` resolved through the MRO, folded to a Python constant."""
        if isinstance(cls, str):
            cls = self.cls(cls)
        owner, expr = cls.find_const_expr(name)
        if expr is None:
            raise AnalysisError(f"class constant {cls.name}.{name} not found")
        try:
            return self.fold(expr, owner.module, owner)
        except NotConst as exc:
            raise AnalysisError(f"class constant {cls.name}.{name} is not a foldable constant: {exc}") from exc

    def has_const(self, cls: ClassInfo | str, name: str) -> bool:
        if isinstance(cls, str):
            cls = self.cls(cls)
        return cls.find_const_expr(name)[1] is not None

    def fold(self, expr, mod: Module, cls: ClassInfo | None = None, env: dict | None = None, _depth=0):
        """Constant-fold an expression (ints, floats, str, bytes, tuples/lists/dicts, arithmetic, class constants)."""
        if _depth > 20:
            raise NotConst("too deep")
        f = lambda e: self.fold(e, mod, cls, env, _depth + 1)  # noqa: E731
        if isinstance(expr, ast.Constant):
            return expr.value
        if isinstance(expr, ast.UnaryOp):
            v = f(expr.operand)
            if isinstance(expr.op, ast.USub):
                return -v
            if isinstance(expr.op, ast.UAdd):
                return +v
            if isinstance(expr.op, ast.Invert):
                return ~v
            if isinstance(expr.op, ast.Not):
                return not v
        if isinstance(expr, ast.BinOp):
            a, b = f(expr.left), f(expr.right)
            ops = {
                ast.Add: lambda: a + b, ast.Sub: lambda: a - b, ast.Mult: lambda: a * b,
                ast.FloorDiv: lambda: a // b, ast.Div: lambda: a / b, ast.Mod: lambda: a % b,
                ast.Pow: lambda: a**b, ast.LShift: lambda: a << b, ast.RShift: lambda: a >> b,
                ast.BitOr: lambda: a | b, ast.BitAnd: lambda: a & b, ast.BitXor: lambda: a ^ b,
            }
            fn = ops.get(type(expr.op))
            if fn is None:
                raise NotConst(norm(expr))
            try:
                return fn()
            except Exception as exc:
                raise NotConst(f"{norm(expr)}: {exc}") from exc
        if isinstance(expr, (ast.Tuple, ast.List)):
            vals = [f(e) for e in expr.elts]
            return tuple(vals) if isinstance(expr, ast.Tuple) else vals
        if isinstance(expr, ast.Dict):
            return {f(k): f(v) for k, v in zip(expr.keys, expr.values)}
        if isinstance(expr, ast.Name):
            if env and expr.id in env:
                return env[expr.id]
            if cls is not None:
                owner, sub = cls.find_const_expr(expr.id)
                if sub is not None:
                    return self.fold(sub, owner.module, owner, env, _depth + 1)
            target = self.resolve(mod, expr.id)
            if isinstance(target, ast.AST) and not isinstance(target, (ast.ClassDef, ast.FunctionDef)):
                return self.fold(target, mod, None, env, _depth + 1)
            raise NotConst(f"name {expr.id}")
        if isinstance(expr, ast.Attribute):
            name = dotted(expr)
            if name is None:
                raise NotConst(norm(expr))
            if name.startswith("self.") or name.startswith("cls."):
                attr = name.split(".", 1)[1]
                if cls is not None and "." not in attr:
                    owner, sub = cls.find_const_expr(attr)
                    if sub is not None:
                        return self.fold(sub, owner.module, owner, env, _depth + 1)
                raise NotConst(name)
            # Enum member value:  Cls.MEMBER.value
            if name.endswith(".value"):
                inner = self.resolve(mod, name[: -len(".value")])
                if isinstance(inner, tuple):
                    owner, sub = inner[0].find_const_expr(inner[1])
                    if sub is not None:
                        return self.fold(sub, owner.module, owner, env, _depth + 1)
            target = self.resolve(mod, name)
            if isinstance(target, tuple):
                owner, sub = target[0].find_const_expr(target[1])
                if sub is not None:
                    return self.fold(sub, owner.module, owner, env, _depth + 1)
            if isinstance(target, ast.AST) and not isinstance(target, (ast.ClassDef, ast.FunctionDef)):
                return self.fold(target, mod, None, env, _depth + 1)
            raise NotConst(name)
        if isinstance(expr, ast.JoinedStr):
            out = ""
            for part in expr.values:
                if isinstance(part, ast.Constant):
                    out += str(part.value)
                elif isinstance(part, ast.FormattedValue) and part.format_spec is None and part.conversion == -1:
                    out += str(f(part.value))
                else:
                    raise NotConst(norm(expr))
            return out
        if isinstance(expr, ast.Call):
            fname = dotted(expr.func)
            if fname in ("len", "int", "float", "str", "bytes", "bool", "chr", "ord", "hex", "min", "max") and not expr.keywords:
                args = [f(a) for a in expr.args]
                try:
                    return {"len": len, "int": int, "float": float, "str": str, "bytes": bytes, "bool": bool,
                            "chr": chr, "ord": ord, "hex": hex, "min": min, "max": max}[fname](*args)
                except Exception as exc:
                    raise NotConst(f"{norm(expr)}: {exc}") from exc
            if isinstance(expr.func, ast.Attribute) and expr.func.attr in ("replace", "upper", "lower", "strip") and not expr.keywords:
                recv = f(expr.func.value)
                args = [f(a) for a in expr.args]
                if isinstance(recv, str):
                    return getattr(recv, expr.func.attr)(*args)
            if fname == "struct.calcsize" and len(expr.args) == 1:
                import struct

                return struct.calcsize(f(expr.args[0]))
            raise NotConst(norm(expr))
        if isinstance(expr, ast.Compare) and len(expr.ops) == 1:
            a, b = f(expr.left), f(expr.comparators[0])
            table = {ast.Eq: a == b, ast.NotEq: a != b}
            if type(expr.ops[0]) in table:
                return table[type(expr.ops[0])]
        if isinstance(expr, ast.IfExp):
            return f(expr.body) if f(expr.test) else f(expr.orelse)
        raise NotConst(norm(expr))

    def enum_members(self, cls: ClassInfo | str) -> dict[str, object]:
        if isinstance(cls, str):
            cls = self.cls(cls)
        out = {}
        for name, expr in cls.consts.items():
            if name.startswith("_"):
                continue
            try:
                out[name] = self.fold(expr, cls.module, cls)
            except NotConst:
                continue
        return out


_REPO_CACHE: dict[str, Repo] = {}


def load_repo(root: str | None = None) -> Repo:
    root = root or REPO_ROOT
    if root not in _REPO_CACHE:
        sys.setrecursionlimit(max(sys.getrecursionlimit(), 5000))
        _REPO_CACHE[root] = Repo(root)
    return _REPO_CACHE[root]
