"""Normal form of a function body for shape rules.

The rules decide structural facts ("one element is appended per requested id", "the send is guarded by the enabled
flag").  Such a fact must not depend on which of several equivalent spellings the programmer chose.  normalise()
rewrites a *copy* of the function into one spelling; every rewrite preserves the order of calls and writes that the
rules look at (it is used for matching only, never executed):

  helpers   extracted private helpers are inlined (sa.inline)
  aliases   a local assigned once from a pure reference (`alarms = self.alarms`, `entry = self._table[key]`,
            `t3 = self._settings.timeouts.t3`) is replaced by that reference at its uses.  "Pure reference" = names,
            attribute chains, subscripts of those with such an index; calls are never moved.
  comps     `x = [E for v in IT if C]` (also inside a return / call argument, hoisted to a fresh local) becomes
            `x = []` + `for v in IT: if C: x.append(E)`; generator arguments of list()/tuple() likewise
  ifexp     `x = A if c else B` and `lst.append(A if c else B)` become if/else statements

A rule that needs the number or the place of reads of a concurrently mutable attribute must not use the alias rewrite
(pass aliases=False): replacing an alias by its definition multiplies reads.
"""

from __future__ import annotations

import ast
import copy

from . import inline
from .model import norm, walk_no_nested


_pure_ref = inline.pure_ref


def _stmt_lists(node):
    for n in ast.walk(node):
        for field in ("body", "orelse", "finalbody"):
            lst = getattr(n, field, None)
            if isinstance(lst, list) and lst and isinstance(lst[0], ast.stmt):
                yield n, field, lst
        if isinstance(n, ast.Try):
            for h in n.handlers:
                yield h, "body", h.body


def _assign_counts(fn):
    counts: dict[str, list] = {}
    for n in walk_no_nested(fn):
        if isinstance(n, ast.Name) and isinstance(n.ctx, (ast.Store, ast.Del)):
            counts.setdefault(n.id, []).append(n)
    for a in fn.args.args + fn.args.kwonlyargs:
        counts.setdefault(a.arg, []).append(a)
    return counts


def _loop_local_alias(fn, definition, alias: str, loop_vars: set) -> bool:
    """The alias is defined inside a for-loop over the variables it mentions, these are bound by for-statements only (the
    same name in another loop is another variable there), are not written inside this loop, and every use of the alias
    lies in that same loop body."""
    fors = [x for x in walk_no_nested(fn) if isinstance(x, ast.For)]
    for v in loop_vars:
        stores = [x for x in walk_no_nested(fn) if isinstance(x, ast.Name) and x.id == v and isinstance(x.ctx, (ast.Store, ast.Del))]
        targets = [t for f in fors for t in ast.walk(f.target) if isinstance(t, ast.Name)]
        if not all(any(s is t for t in targets) for s in stores):
            return False
    enclosing = [f for f in fors if any(x is definition for b in f.body for x in ast.walk(b)) and loop_vars <= {t.id for t in ast.walk(f.target) if isinstance(t, ast.Name)}]
    if not enclosing:
        return False
    inner = min(enclosing, key=lambda f: sum(1 for _ in ast.walk(f)))
    inside = {id(x) for b in inner.body for x in ast.walk(b)}
    uses = [x for x in walk_no_nested(fn) if isinstance(x, ast.Name) and x.id == alias]
    if not all(id(u) in inside for u in uses):
        return False
    # no nested loop inside re-binds the variables
    for b in inner.body:
        for x in ast.walk(b):
            if isinstance(x, ast.For) and any(isinstance(t, ast.Name) and t.id in loop_vars for t in ast.walk(x.target)):
                return False
    return True


def _object_alias_pass(fn) -> bool:
    """`v = Ctor(...)` directly followed by `self.a = v` (both bound once): the object is `self.a` from then on - fused to
    `self.a = Ctor(...)`, later reads of `v` become `self.a`."""
    counts = _assign_counts(fn)
    changed = False
    for owner, field, lst in list(_stmt_lists(fn)):
        new, i = [], 0
        while i < len(lst):
            st = lst[i]
            nxt = lst[i + 1] if i + 1 < len(lst) else None
            if (isinstance(st, ast.Assign) and len(st.targets) == 1 and isinstance(st.targets[0], ast.Name) and isinstance(st.value, ast.Call)
                    and len(counts.get(st.targets[0].id, [])) == 1
                    and isinstance(nxt, ast.Assign) and len(nxt.targets) == 1 and isinstance(nxt.targets[0], ast.Attribute) and isinstance(nxt.targets[0].value, ast.Name)
                    and nxt.targets[0].value.id == "self" and isinstance(nxt.value, ast.Name) and nxt.value.id == st.targets[0].id):
                attr = norm(nxt.targets[0])
                stores = [x for x in walk_no_nested(fn) if isinstance(x, ast.Attribute) and isinstance(x.ctx, (ast.Store, ast.Del)) and norm(x) == attr]
                if len(stores) == 1:
                    name = st.targets[0].id
                    fused = ast.copy_location(ast.Assign(targets=[nxt.targets[0]], value=st.value), st)
                    new.append(fused)
                    i += 2

                    class Sub(ast.NodeTransformer):
                        def visit_Name(self, node):
                            if node.id == name and isinstance(node.ctx, ast.Load):
                                return ast.copy_location(ast.Attribute(value=ast.Name(id="self", ctx=ast.Load()), attr=nxt.targets[0].attr, ctx=ast.Load()), node)
                            return node

                    for later in lst[i:]:
                        Sub().visit(later)
                    ast.fix_missing_locations(fn)
                    changed = True
                    continue
            new.append(st)
            i += 1
        setattr(owner, field, new)
    return changed


def _alias_pass(fn) -> bool:
    counts = _assign_counts(fn)
    stored = set()
    for n in walk_no_nested(fn):
        if isinstance(n, (ast.Attribute, ast.Subscript)) and isinstance(n.ctx, (ast.Store, ast.Del)):
            stored.add(norm(n))
    defs = {}
    for n in walk_no_nested(fn):
        if isinstance(n, ast.Assign) and len(n.targets) == 1 and isinstance(n.targets[0], ast.Name) and _pure_ref(n.value) and not isinstance(n.value, ast.Constant):
            name = n.targets[0].id
            if len(counts.get(name, [])) != 1:
                continue
            # the definition must not mention a local that is rebound (loop variables are fine: the alias lives in the
            # loop body), and the aliased reference itself must not be re-bound in the function (`old = self.x; self.x = new`)
            rebound = [x.id for x in ast.walk(n.value) if isinstance(x, ast.Name) and len(counts.get(x.id, [])) > 1]
            if rebound and not _loop_local_alias(fn, n, name, set(rebound)):
                continue
            ref = norm(n.value)
            if any(ref == st or ref.startswith(st + ".") or ref.startswith(st + "[") for st in stored):
                continue  # the reference (or what it is reached through) is re-bound: the alias holds the old object
            defs[name] = n
    if not defs:
        return False
    changed = False

    class Sub(ast.NodeTransformer):
        def visit_Name(self, node):
            nonlocal changed
            d = defs.get(node.id)
            if d is not None and isinstance(node.ctx, ast.Load):
                changed = True
                return ast.copy_location(copy.deepcopy(d.value), node)
            return node

        def visit_FunctionDef(self, node):
            return node if node is not fn else self.generic_visit(node)

        def visit_Lambda(self, node):
            return node

    Sub().visit(fn)
    # drop the alias definitions themselves (reads only; nothing a rule counts)
    for owner, field, lst in list(_stmt_lists(fn)):
        new = [s for s in lst if not (isinstance(s, ast.Assign) and any(s is d for d in defs.values()))]
        if len(new) != len(lst):
            setattr(owner, field, new or [ast.copy_location(ast.Pass(), lst[0])])
    return changed


class _Fresh:
    def __init__(self, fn):
        self.used = {n.id for n in ast.walk(fn) if isinstance(n, ast.Name)}
        self.k = 0

    def name(self, base="_comp"):
        while True:
            self.k += 1
            cand = f"{base}{self.k}"
            if cand not in self.used:
                self.used.add(cand)
                return cand


def _comp_to_loop(target_name: str, comp, at):
    """statements building `target_name` from a list comprehension / generator."""
    stmts = [ast.Assign(targets=[ast.Name(id=target_name, ctx=ast.Store())], value=ast.List(elts=[], ctx=ast.Load()))]
    inner: list = [ast.Expr(value=ast.Call(func=ast.Attribute(value=ast.Name(id=target_name, ctx=ast.Load()), attr="append", ctx=ast.Load()), args=[comp.elt], keywords=[]))]
    for gen in reversed(comp.generators):
        for cond in reversed(gen.ifs):
            inner = [ast.If(test=cond, body=inner, orelse=[])]
        inner = [ast.For(target=gen.target, iter=gen.iter, body=inner, orelse=[])]
    stmts.extend(inner)
    for s in stmts:
        ast.copy_location(s, at)
        ast.fix_missing_locations(s)
    return stmts


def _find_comp(stmt):
    """A list comprehension (or generator passed alone to list()/tuple()) evaluated by this simple statement."""
    if not isinstance(stmt, (ast.Assign, ast.Return, ast.Expr, ast.AugAssign)):
        return None
    for n in walk_no_nested(stmt):
        if isinstance(n, ast.ListComp) and not any(g.is_async for g in n.generators):
            return n
    return None


def _comp_pass(fn) -> bool:
    fresh = _Fresh(fn)
    changed = False
    for owner, field, lst in list(_stmt_lists(fn)):
        new = []
        for st in lst:
            comp = _find_comp(st)
            if comp is None:
                new.append(st)
                continue
            changed = True
            # a comprehension has its own scope: keep its variables apart from same-named locals of the function
            inside = {id(x) for x in ast.walk(comp)}
            outer_stores = {x.id for x in walk_no_nested(fn) if isinstance(x, ast.Name) and isinstance(x.ctx, (ast.Store, ast.Del)) and id(x) not in inside}
            outer_stores |= {a.arg for a in fn.args.args + fn.args.kwonlyargs}
            clash = {x.id for g in comp.generators for x in ast.walk(g.target) if isinstance(x, ast.Name) and x.id in outer_stores}
            if clash:
                ren = {name: fresh.name(name + "_c") for name in clash}
                for x in ast.walk(comp):
                    if isinstance(x, ast.Name) and x.id in ren:
                        x.id = ren[x.id]
            if isinstance(st, ast.Assign) and st.value is comp and len(st.targets) == 1 and isinstance(st.targets[0], ast.Name) and not any(isinstance(x, ast.Name) and x.id == st.targets[0].id for x in ast.walk(comp)):
                new.extend(_comp_to_loop(st.targets[0].id, comp, st))
                continue
            tmp = fresh.name()
            new.extend(_comp_to_loop(tmp, comp, st))

            class Swap(ast.NodeTransformer):
                def visit_ListComp(self, node):
                    return ast.copy_location(ast.Name(id=tmp, ctx=ast.Load()), node) if node is comp else self.generic_visit(node)

            new.append(Swap().visit(st))
        setattr(owner, field, new)
    return changed


def _ifexp_pass(fn) -> bool:
    changed = False
    for owner, field, lst in list(_stmt_lists(fn)):
        new = []
        for st in lst:
            tgt = None
            if isinstance(st, ast.Assign) and isinstance(st.value, ast.IfExp):
                tgt = st.value
            elif isinstance(st, ast.Expr) and isinstance(st.value, ast.Call) and len(st.value.args) == 1 and isinstance(st.value.args[0], ast.IfExp) and isinstance(st.value.func, ast.Attribute) and st.value.func.attr == "append":
                tgt = st.value.args[0]
            elif isinstance(st, ast.Return) and isinstance(st.value, ast.IfExp):
                tgt = st.value
            if tgt is None:
                new.append(st)
                continue
            changed = True

            def variant(arm):
                cp = copy.deepcopy(st)
                idx = [i for i, x in enumerate(ast.walk(st)) if x is tgt][0]
                target = list(ast.walk(cp))[idx]

                class Swap(ast.NodeTransformer):
                    def visit_IfExp(self, node):
                        return copy.deepcopy(arm) if node is target else self.generic_visit(node)

                return Swap().visit(cp)

            node = ast.If(test=tgt.test, body=[variant(tgt.body)], orelse=[variant(tgt.orelse)])
            ast.copy_location(node, st)
            ast.fix_missing_locations(node)
            new.append(node)
        setattr(owner, field, new)
    return changed


def _allany_pass(fn) -> bool:
    """`return all(E for v in IT)` is `for v in IT: if not E: return False` + `return True` (any: dual)."""
    changed = False
    for owner, field, lst in list(_stmt_lists(fn)):
        new = []
        for st in lst:
            v = st.value if isinstance(st, ast.Return) else None
            if isinstance(v, ast.Call) and isinstance(v.func, ast.Name) and v.func.id in ("all", "any") and len(v.args) == 1 and not v.keywords and isinstance(v.args[0], (ast.GeneratorExp, ast.ListComp)) and not any(g.is_async for g in v.args[0].generators):
                comp = v.args[0]
                is_all = v.func.id == "all"
                test = ast.UnaryOp(op=ast.Not(), operand=comp.elt) if is_all else comp.elt
                inner: list = [ast.If(test=test, body=[ast.Return(value=ast.Constant(value=not is_all))], orelse=[])]
                for gen in reversed(comp.generators):
                    for cond in reversed(gen.ifs):
                        inner = [ast.If(test=cond, body=inner, orelse=[])]
                    inner = [ast.For(target=gen.target, iter=gen.iter, body=inner, orelse=[])]
                inner.append(ast.Return(value=ast.Constant(value=is_all)))
                for x in inner:
                    ast.copy_location(x, st)
                    ast.fix_missing_locations(x)
                new.extend(inner)
                changed = True
            else:
                new.append(st)
        setattr(owner, field, new)
    return changed


def _redundant_guard_pass(fn) -> bool:
    """`if xs: for v in xs: ...` with xs a local list built in this function: the guard adds nothing (an empty list loops
    zero times)."""
    built = set()
    for n in walk_no_nested(fn):
        if isinstance(n, ast.Assign) and len(n.targets) == 1 and isinstance(n.targets[0], ast.Name) and isinstance(n.value, (ast.List, ast.ListComp)):
            built.add(n.targets[0].id)
    changed = False
    for owner, field, lst in list(_stmt_lists(fn)):
        new = []
        for st in lst:
            if (isinstance(st, ast.If) and not st.orelse and len(st.body) == 1 and isinstance(st.body[0], ast.For) and not st.body[0].orelse
                    and isinstance(st.body[0].iter, ast.Name) and st.body[0].iter.id in built
                    and (norm(st.test) == st.body[0].iter.id or norm(st.test) in (f"len({st.body[0].iter.id}) > 0", f"len({st.body[0].iter.id}) != 0", f"len({st.body[0].iter.id}) >= 1"))):
                new.append(st.body[0])
                changed = True
            else:
                new.append(st)
        setattr(owner, field, new)
    return changed


def _nested_if_pass(fn) -> bool:
    """`if A: if B: S` (neither with an else, nothing else under A) is `if A and B: S` - same evaluation order, same
    short circuit."""
    changed = False
    again = True
    while again:
        again = False
        for node in ast.walk(fn):
            if isinstance(node, ast.If) and not node.orelse and len(node.body) == 1 and isinstance(node.body[0], ast.If) and not node.body[0].orelse:
                inner = node.body[0]
                left = list(node.test.values) if isinstance(node.test, ast.BoolOp) and isinstance(node.test.op, ast.And) else [node.test]
                right = list(inner.test.values) if isinstance(inner.test, ast.BoolOp) and isinstance(inner.test.op, ast.And) else [inner.test]
                node.test = ast.copy_location(ast.BoolOp(op=ast.And(), values=left + right), node.test)
                node.body = inner.body
                changed = again = True
    if changed:
        ast.fix_missing_locations(fn)
    return changed


def _fstring_concat_pass(fn) -> bool:
    """`f"a{x}" + f"b{y}"` (or a plain text literal on either side) is the one f-string `f"a{x}b{y}"`."""
    changed = [False]

    def parts(e):
        if isinstance(e, ast.JoinedStr):
            return list(e.values)
        if isinstance(e, ast.Constant) and isinstance(e.value, str):
            return [e]
        return None

    class T(ast.NodeTransformer):
        def visit_BinOp(self, node):
            self.generic_visit(node)
            if isinstance(node.op, ast.Add) and (isinstance(node.left, ast.JoinedStr) or isinstance(node.right, ast.JoinedStr)):
                a, b = parts(node.left), parts(node.right)
                if a is not None and b is not None:
                    merged = []
                    for v in a + b:
                        if isinstance(v, ast.Constant) and merged and isinstance(merged[-1], ast.Constant):
                            merged[-1] = ast.Constant(value=merged[-1].value + v.value)
                        else:
                            merged.append(v)
                    changed[0] = True
                    return ast.copy_location(ast.JoinedStr(values=merged), node)
            return node

    T().visit(fn)
    if changed[0]:
        ast.fix_missing_locations(fn)
    return changed[0]


def _bool_argument_pass(fn) -> bool:
    """`if C: f(.., True, ..) else: f(.., False, ..)` - the two branches one call statement each, equal but for one
    boolean constant - is `f(.., C, ..)` (`not C` for False/True).  Only where C is a comparison or a negation, i.e.
    already a truth value, so that the argument is the same object either way."""
    changed = False
    for owner, field, lst in list(_stmt_lists(fn)):
        new = []
        for st in lst:
            merged = None
            if (isinstance(st, ast.If) and len(st.body) == 1 and len(st.orelse) == 1 and isinstance(st.body[0], ast.Expr) and isinstance(st.orelse[0], ast.Expr)
                    and isinstance(st.body[0].value, ast.Call) and isinstance(st.orelse[0].value, ast.Call)
                    and (isinstance(st.test, ast.Compare) or (isinstance(st.test, ast.UnaryOp) and isinstance(st.test.op, ast.Not) and isinstance(st.test.operand, ast.Compare)))):
                a, b = st.body[0].value, st.orelse[0].value
                if norm(a.func) == norm(b.func) and len(a.args) == len(b.args) and [k.arg for k in a.keywords] == [k.arg for k in b.keywords]:
                    pa = list(a.args) + [k.value for k in a.keywords]
                    pb = list(b.args) + [k.value for k in b.keywords]
                    diff = [i for i, (x, y) in enumerate(zip(pa, pb)) if norm(x) != norm(y)]
                    if len(diff) == 1:
                        x, y = pa[diff[0]], pb[diff[0]]
                        if isinstance(x, ast.Constant) and isinstance(y, ast.Constant) and isinstance(x.value, bool) and isinstance(y.value, bool) and x.value != y.value:
                            # arguments before the boolean one must be free of calls (they are evaluated before C in the merged form, after it in the branches)
                            if not any(isinstance(n, ast.Call) for arg in pa[:diff[0]] for n in ast.walk(arg)) and not any(isinstance(n, ast.Call) for n in ast.walk(a.func)):
                                cond = st.test if x.value else ast.UnaryOp(op=ast.Not(), operand=st.test)
                                call = inline._copy_node(a)
                                if diff[0] < len(call.args):
                                    call.args[diff[0]] = cond
                                else:
                                    call.keywords[diff[0] - len(call.args)].value = cond
                                merged = ast.copy_location(ast.Expr(value=call), st)
                                ast.fix_missing_locations(merged)
            if merged is not None:
                new.append(merged)
                changed = True
            else:
                new.append(st)
        setattr(owner, field, new)
    return changed


def _ends(stmts) -> bool:
    return bool(stmts) and isinstance(stmts[-1], (ast.Return, ast.Raise, ast.Continue, ast.Break))


def _quantifier_branch_pass(fn) -> bool:
    """`if all(E for v in IT): A  else: B` with B ending in return/raise is `for v in IT: if not E: B` followed by A
    (the first element that fails takes the else branch; if none fails, A runs)."""
    changed = False
    for owner, field, lst in list(_stmt_lists(fn)):
        new = []
        for st in lst:
            t = st.test if isinstance(st, ast.If) else None
            if (t is not None and isinstance(t, ast.Call) and isinstance(t.func, ast.Name) and t.func.id == "all" and len(t.args) == 1 and not t.keywords
                    and isinstance(t.args[0], (ast.GeneratorExp, ast.ListComp)) and len(t.args[0].generators) == 1 and not t.args[0].generators[0].ifs
                    and st.orelse and _ends(st.orelse)):
                gen = t.args[0].generators[0]
                inner = ast.If(test=ast.UnaryOp(op=ast.Not(), operand=t.args[0].elt), body=list(st.orelse), orelse=[])
                loop = ast.For(target=gen.target, iter=gen.iter, body=[inner], orelse=[])
                ast.copy_location(loop, st)
                ast.copy_location(inner, st)
                ast.fix_missing_locations(loop)
                new.append(loop)
                new.extend(st.body)
                changed = True
            else:
                new.append(st)
        setattr(owner, field, new)
    return changed


def _tail_pass(fn) -> bool:
    """`if c: x = A  elif d: x = B  else: x = C` followed directly by `return x`: the return goes into every branch
    (`return A` ...), so that a result computed by a helper is returned by the branch that computed it."""
    changed = False

    def push(stmts, name):
        """stmts with the tail `return name` appended (fused with a final `name = E`)."""
        if _ends(stmts):
            return stmts
        if stmts and isinstance(stmts[-1], ast.If):
            last = stmts[-1]
            last.body = push(list(last.body), name)
            last.orelse = push(list(last.orelse), name)
            return stmts
        if stmts and isinstance(stmts[-1], ast.Assign) and len(stmts[-1].targets) == 1 and isinstance(stmts[-1].targets[0], ast.Name) and stmts[-1].targets[0].id == name:
            ret = ast.copy_location(ast.Return(value=stmts[-1].value), stmts[-1])
            return stmts[:-1] + [ret]
        anchor = stmts[-1] if stmts else fn
        ret = ast.copy_location(ast.Return(value=ast.copy_location(ast.Name(id=name, ctx=ast.Load()), anchor)), anchor)
        return stmts + [ret]

    def fusable(st, name) -> bool:
        """Some branch of the chain ends in `name = <call>` (otherwise the rewriting buys nothing)."""
        for body in (st.body, st.orelse):
            if not body:
                continue
            last = body[-1]
            if isinstance(last, ast.If):
                if fusable(last, name):
                    return True
            elif isinstance(last, ast.Assign) and len(last.targets) == 1 and isinstance(last.targets[0], ast.Name) and last.targets[0].id == name and isinstance(last.value, ast.Call):
                return True
        return False

    for owner, field, lst in list(_stmt_lists(fn)):
        for i in range(len(lst) - 1):
            st, nxt = lst[i], lst[i + 1]
            if isinstance(st, ast.If) and isinstance(nxt, ast.Return) and isinstance(nxt.value, ast.Name) and i + 2 == len(lst) and fusable(st, nxt.value.id):
                st.body = push(list(st.body), nxt.value.id)
                st.orelse = push(list(st.orelse), nxt.value.id)
                setattr(owner, field, lst[:i + 1])
                changed = True
                break
    return changed


def append_loops_to_comprehensions(fn) -> bool:
    """`x = []` directly followed by `for v in IT: x.append(E)` is `x = [E for v in IT]` (used by rules that read a
    comprehension's shape; the summariser treats both alike anyway)."""
    changed = False
    for owner, field, lst in list(_stmt_lists(fn)):
        new, i = [], 0
        while i < len(lst):
            st = lst[i]
            nxt = lst[i + 1] if i + 1 < len(lst) else None
            if (isinstance(st, ast.Assign) and len(st.targets) == 1 and isinstance(st.targets[0], ast.Name) and isinstance(st.value, ast.List) and not st.value.elts
                    and isinstance(nxt, ast.For) and not nxt.orelse and len(nxt.body) == 1 and isinstance(nxt.body[0], ast.Expr) and isinstance(nxt.body[0].value, ast.Call)
                    and isinstance(nxt.body[0].value.func, ast.Attribute) and nxt.body[0].value.func.attr == "append" and isinstance(nxt.body[0].value.func.value, ast.Name)
                    and nxt.body[0].value.func.value.id == st.targets[0].id and len(nxt.body[0].value.args) == 1 and not nxt.body[0].value.keywords
                    and not any(isinstance(x, ast.Name) and x.id == st.targets[0].id for x in ast.walk(nxt.body[0].value.args[0])) and not any(isinstance(x, ast.Name) and x.id == st.targets[0].id for x in ast.walk(nxt.iter))):
                comp = ast.ListComp(elt=nxt.body[0].value.args[0], generators=[ast.comprehension(target=nxt.target, iter=nxt.iter, ifs=[], is_async=0)])
                node = ast.copy_location(ast.Assign(targets=st.targets, value=ast.copy_location(comp, nxt)), st)
                ast.fix_missing_locations(node)
                new.append(node)
                i += 2
                changed = True
                continue
            new.append(st)
            i += 1
        setattr(owner, field, new)
    return changed


def _while_true_pass(fn) -> bool:
    """`while True: if C: break; REST` (no other break of that loop, no else) is `while not C: REST`."""
    changed = False

    def breaks_of(loop):
        out = []

        def rec(n, depth):
            for ch in ast.iter_child_nodes(n):
                if isinstance(ch, (ast.FunctionDef, ast.AsyncFunctionDef, ast.Lambda, ast.ClassDef)):
                    continue
                if isinstance(ch, (ast.While, ast.For)):
                    rec_body = [x for x in ch.orelse]  # a break in the else clause of an inner loop belongs to the outer one
                    for x in rec_body:
                        rec(x, depth)
                    continue
                if isinstance(ch, ast.Break):
                    out.append(ch)
                rec(ch, depth)

        for st in loop.body:
            if isinstance(st, ast.Break):
                out.append(st)
            rec(st, 0)
        return out

    def continues_of(loop):
        out = []

        def rec(x):
            for ch in ast.iter_child_nodes(x):
                if isinstance(ch, (ast.FunctionDef, ast.AsyncFunctionDef, ast.Lambda, ast.ClassDef, ast.While, ast.For)):
                    continue
                if isinstance(ch, ast.Continue):
                    out.append(ch)
                rec(ch)

        for st in loop.body:
            if isinstance(st, ast.Continue):
                out.append(st)
            elif not isinstance(st, (ast.While, ast.For)):
                rec(st)
        return out

    # do-while with a flag: `F = True; while True: BODY; if not F: break` is `F = True; while F: BODY`
    for owner, field, lst in list(_stmt_lists(fn)):
        for i, n in enumerate(lst):
            if not (isinstance(n, ast.While) and isinstance(n.test, ast.Constant) and n.test.value is True and not n.orelse and len(n.body) >= 2):
                continue
            last = n.body[-1]
            if not (isinstance(last, ast.If) and not last.orelse and len(last.body) == 1 and isinstance(last.body[0], ast.Break)
                    and isinstance(last.test, ast.UnaryOp) and isinstance(last.test.op, ast.Not) and isinstance(last.test.operand, ast.Name)):
                continue
            flag = last.test.operand.id
            if len(breaks_of(n)) != 1 or continues_of(n):
                continue
            before = [st for st in lst[:i] if any(isinstance(x, ast.Name) and x.id == flag and isinstance(x.ctx, ast.Store) for x in ast.walk(st))]
            if not before or not (isinstance(before[-1], ast.Assign) and isinstance(before[-1].value, ast.Constant) and before[-1].value.value is True):
                continue
            n.test = ast.copy_location(ast.Name(id=flag, ctx=ast.Load()), last.test)
            n.body = n.body[:-1]
            changed = True
    # `while True: if C: TAIL; return X` + REST (no break) is `while not C: REST` followed by `TAIL; return X`
    again = True
    rounds = 0
    while again and rounds < 10:
        again = False
        rounds += 1
        for owner, field, lst in list(_stmt_lists(fn)):
            for i, n in enumerate(lst):
                if not (isinstance(n, ast.While) and isinstance(n.test, ast.Constant) and n.test.value is True and not n.orelse and len(n.body) >= 2):
                    continue
                first = n.body[0]
                if not (isinstance(first, ast.If) and not first.orelse and len(first.body) >= 2 and isinstance(first.body[-1], ast.Return)):
                    continue
                if breaks_of(n) or any(isinstance(x, ast.Continue) for x in ast.walk(first)):
                    continue
                tail = list(first.body)
                n.test = ast.copy_location(ast.UnaryOp(op=ast.Not(), operand=first.test), first.test)
                n.body = n.body[1:]
                ast.fix_missing_locations(n)
                setattr(owner, field, lst[:i + 1] + tail)  # what followed the endless loop was unreachable
                changed = True
                again = True
                break
            if again:
                break
    for n in list(ast.walk(fn)):
        if isinstance(n, ast.While) and isinstance(n.test, ast.Constant) and n.test.value is True and not n.orelse and n.body:
            first = n.body[0]
            if isinstance(first, ast.If) and not first.orelse and len(first.body) == 1 and isinstance(first.body[0], ast.Break) and len(breaks_of(n)) == 1:
                n.test = ast.copy_location(ast.UnaryOp(op=ast.Not(), operand=first.test), first.test)
                n.body = n.body[1:] or [ast.copy_location(ast.Pass(), first)]
                ast.fix_missing_locations(n)
                changed = True
    return changed


def _unroll_pass(fn) -> bool:
    """`for v in ("a", "b"): body` over a literal display of constants (at most 8) without break/continue is the body once
    per constant, in order."""
    changed = False

    class Sub(ast.NodeTransformer):
        def __init__(self, name, value):
            self.name, self.value = name, value

        def visit_Name(self, node):
            if node.id == self.name and isinstance(node.ctx, ast.Load):
                return ast.copy_location(ast.Constant(value=self.value), node)
            return node

    class SubMany(ast.NodeTransformer):
        def __init__(self, mapping):
            self.mapping = mapping

        def visit_Name(self, node):
            if node.id in self.mapping and isinstance(node.ctx, ast.Load):
                return ast.copy_location(inline._copy_node(self.mapping[node.id]), node)
            return node

    def ref_only(e):
        return isinstance(e, ast.Constant) or (isinstance(e, (ast.Name, ast.Attribute)) and inline.pure_ref(e))

    for owner, field, lst in list(_stmt_lists(fn)):
        new = []
        for st in lst:
            # `for a, b in (("x", self.f), ("y", self.g)): body` - rows of constants and plain references (bound methods,
            # names), as many per row as targets, nothing in the body stores to what the rows mention
            if (isinstance(st, ast.For) and not st.orelse and isinstance(st.target, ast.Tuple) and all(isinstance(t, ast.Name) for t in st.target.elts)
                    and isinstance(st.iter, (ast.Tuple, ast.List)) and 1 <= len(st.iter.elts) <= 8
                    and all(isinstance(r, (ast.Tuple, ast.List)) and len(r.elts) == len(st.target.elts) and all(ref_only(e) for e in r.elts) for r in st.iter.elts)
                    and not any(isinstance(x, (ast.Break, ast.Continue)) for b in st.body for x in ast.walk(b))):
                tnames = [t.id for t in st.target.elts]
                mentioned = {norm(e) for r in st.iter.elts for e in r.elts if not isinstance(e, ast.Constant)}
                stored = {norm(x) for b in st.body for x in ast.walk(b) if isinstance(x, (ast.Name, ast.Attribute)) and isinstance(x.ctx, (ast.Store, ast.Del))}
                idx = lst.index(st)
                later = any(isinstance(x, ast.Name) and x.id in tnames for other in lst[idx + 1:] for x in ast.walk(other))
                if not (stored & (mentioned | set(tnames))) and not later:
                    for r in st.iter.elts:
                        for b in st.body:
                            new.append(SubMany(dict(zip(tnames, r.elts))).visit(inline._copy_node(b)))
                    changed = True
                    continue
            if (isinstance(st, ast.For) and not st.orelse and isinstance(st.target, ast.Name) and isinstance(st.iter, (ast.Tuple, ast.List)) and 1 <= len(st.iter.elts) <= 8
                    and all(isinstance(e, ast.Constant) for e in st.iter.elts)
                    and not any(isinstance(x, (ast.Break, ast.Continue)) for b in st.body for x in ast.walk(b))
                    and not any(isinstance(x, ast.Name) and x.id == st.target.id and isinstance(x.ctx, (ast.Store, ast.Del)) for b in st.body for x in ast.walk(b))):
                later_use = False  # the loop variable keeps its last value; unrolling is only exact if nobody reads it afterwards
                seen = False
                for other in lst:
                    if other is st:
                        seen = True
                        continue
                    if not seen:
                        continue
                    if isinstance(other, ast.For) and any(isinstance(x, ast.Name) and x.id == st.target.id for x in ast.walk(other.target)) and not any(isinstance(x, ast.Name) and x.id == st.target.id for x in ast.walk(other.iter)):
                        break  # bound anew by a later loop before anybody reads it
                    if any(isinstance(x, ast.Name) and x.id == st.target.id for x in ast.walk(other)):
                        later_use = True
                        break
                if later_use:
                    new.append(st)
                    continue
                for e in st.iter.elts:
                    for b in st.body:
                        new.append(Sub(st.target.id, e.value).visit(inline._copy_node(b)))
                changed = True
            else:
                new.append(st)
        setattr(owner, field, new)
    return changed


FRESH_DICT_PROPS: set = set()  # names of properties whose every definition returns a dict display (set by report.Ctx)


def _dict_merge_pass(fn) -> bool:
    """`n = self.P; n.update(K)` with P a property that builds a new dictionary on every read is `n = {**self.P, **K}`:
    the update writes into an object nobody else holds."""
    changed = False
    for _, _, stmts in _stmt_lists(fn):
        i = 0
        while i + 1 < len(stmts):
            a, b = stmts[i], stmts[i + 1]
            if (isinstance(a, ast.Assign) and len(a.targets) == 1 and isinstance(a.targets[0], ast.Name) and isinstance(a.value, ast.Attribute)
                    and isinstance(a.value.value, ast.Name) and a.value.value.id == "self" and a.value.attr in FRESH_DICT_PROPS
                    and isinstance(b, ast.Expr) and isinstance(b.value, ast.Call) and isinstance(b.value.func, ast.Attribute) and b.value.func.attr == "update"
                    and isinstance(b.value.func.value, ast.Name) and b.value.func.value.id == a.targets[0].id and len(b.value.args) == 1 and not b.value.keywords
                    and isinstance(b.value.args[0], (ast.Name, ast.Dict))):
                a.value = ast.copy_location(ast.Dict(keys=[None, None], values=[a.value, b.value.args[0]]), a.value)
                del stmts[i + 1]
                changed = True
            i += 1
    if changed:
        ast.fix_missing_locations(fn)
    return changed


def normalise(repo, finfo, keep=(), helpers=True, aliases=True, comps=True, ifexp=True):
    """(normalised function node, [inlined helper FuncInfo])."""
    used = []
    fn = finfo.node
    if helpers:
        fn, used = inline.expand(repo, finfo, keep, pre=lambda f: bool(_tail_pass(f)) | bool(_allany_pass(f)))
    if fn is finfo.node:
        fn = inline._copy_node(fn)
    _allany_pass(fn)
    _dict_merge_pass(fn)
    _quantifier_branch_pass(fn)
    _bool_argument_pass(fn)
    _nested_if_pass(fn)
    _fstring_concat_pass(fn)
    _redundant_guard_pass(fn)
    _unroll_pass(fn)
    _while_true_pass(fn)
    for _ in range(4):
        changed = False
        if comps:
            changed |= _comp_pass(fn)
        if ifexp:
            changed |= _ifexp_pass(fn)
        if aliases:
            changed |= _object_alias_pass(fn)
            changed |= _alias_pass(fn)
        if not changed:
            break
    ast.fix_missing_locations(fn)
    if aliases and getattr(finfo, "module", None) is not None:
        # a call through a local that stood for a class or function (`make = pkg.Transition; make(name=...)`) is now a call
        # of that class: its keywords are put into the positional spelling like every other call of the package
        from . import callnorm

        callnorm.canonicalise(repo, ("function", fn, finfo.module, finfo.cls))
    return fn, used


def normalised(ctx, finfo, keep=(), **kw):
    fn, used = normalise(ctx.repo, finfo, keep, **kw)
    for h in used:
        ctx.touch(h)
    return fn
