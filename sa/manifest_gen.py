"""Regenerate /verif/MANIFEST.json from the META blocks of the property checkers (keeps the interface in sync)."""

from __future__ import annotations

import importlib
import json
import os

VERIF = os.path.dirname(os.path.dirname(os.path.abspath(__file__)))
BASELINE_OFF = ("cd /repo && /venv/bin/python -m pytest -ra -q -p no:cacheprovider --timeout=900 "
                "--continue-on-collection-errors --junitxml=/tmp/secsgem_baseline_off.junit.xml")

NOT_APPLICABLE: dict[str, str] = {}


def main():
    props = [json.loads(l)["id"] for l in open(os.path.join(VERIF, "properties.jsonl"))]
    models: dict = {}
    idx = os.path.join(VERIF, "sa", "reference", "models", "index.json")
    if os.path.exists(idx):
        for m in json.load(open(idx))["models"]:
            models[m["property"]] = models.get(m["property"], 0) + 1
    checks = []
    na = []
    engines = {}
    for pid in props:
        try:
            mod = importlib.import_module(f"sa.props.{pid.lower()}")
        except ModuleNotFoundError:
            na.append({"property_id": pid, "reason": NOT_APPLICABLE.get(pid, "checker not built yet in this round (static rules are designed in DESIGN.md section 4)")})
            continue
        meta = mod.META
        checks.append(
            {
                "property_id": pid,
                "quick_cmd": f"/venv/bin/python -m sa.check {pid} --tier quick",
                "thorough_cmd": f"/venv/bin/python -m sa.check {pid} --tier thorough",
                "evidence_file": f"/verif/evidence/{pid}.json",
                "replay_cmd_template": "/venv/bin/python -m sa.replay {path}",
                "engine": "sa",
                "level_claimed": {
                    "category": "other",
                    "text": "Static analysis of /repo's current source (never imported or run). Decides: " + "; ".join(meta["decides"])
                    + ". Does NOT decide: " + "; ".join(meta["does_not_decide"]) + ".",
                    "design_ref": f"DESIGN.md section 4, {pid}",
                },
                "level_note": "Trusted base: CPython ast parser; the checker under /verif/sa; reference tables transcribed from the SEMI standards; "
                + "; ".join(meta.get("assumptions", [])),
                "technique": meta.get("technique", "static analysis of the syntax tree (no execution): repository-specific CFG/dominator/dataflow rules with canonical branch conditions, helper inlining and normal forms; abstract summaries (polynomial cursors, sequence grammars, loop induction) compared with reference models; bit-provenance and finite-domain abstract evaluation; state-machine table extraction")
                + (f"; {models.get(pid, 0)} reviewed reference models of anchored functions (sa/reference/models)" if models.get(pid) else ""),
            },
        )
    manifest = {
        "version": 1,
        "setup_cmd": "/venv/bin/python -m sa.selfcheck",
        "hooks": {
            "guard": "SECSGEM_VERIF",
            "enable": "no hooks are needed: the checks read /repo's source and never import or run it",
            "baseline_off_cmd": BASELINE_OFF,
            "source_commits": [],
            "add_only": True,
        },
        "engines": [
            {
                "name": "sa",
                "path": "/verif/sa",
                "serves_properties": [c["property_id"] for c in checks],
                "kind_free_text": "repository-specific static analysis on Python ast: resolved class/constant model, statement CFG with "
                "dominators and path counts, taint/def-use, bit-provenance abstract evaluation of codec functions, table "
                "extraction and cross-checking, lockset/wait-for rules",
            },
        ],
        "checks": checks,
        "notes": "All checks are static (family: static analysis). exit 0 = all rule instances hold or fail only at entries of "
        "/verif/known_findings.json (printed as KNOWN-FINDING lines); exit 1 = VIOLATION line + replay JSON; exit 2 = "
        "ANALYSIS-ERROR (anchor vanished / shape outside the idiom table / instance floor undercut), never a verdict.",
        "not_applicable": na,
    }
    with open(os.path.join(VERIF, "MANIFEST.json"), "w") as handle:
        json.dump(manifest, handle, indent=1)
        handle.write("\n")
    print(f"MANIFEST.json: {len(checks)} checks, {len(na)} not_applicable")


if __name__ == "__main__":
    main()
