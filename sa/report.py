"""Obligation bookkeeping, known-findings matching, evidence writing, verdict/exit code."""

from __future__ import annotations

import ast
import json
import os
import time

from .model import AnalysisError

VERIF = os.path.dirname(os.path.dirname(os.path.abspath(__file__)))
KNOWN_FINDINGS = os.path.join(VERIF, "known_findings.json")
# scratch-variant runs (sa.trypatch / selftest) write their evidence and replay files elsewhere
OUT_DIR = os.environ.get("SA_OUT_DIR") or VERIF


class Ctx:
    """Collects the obligations of one property check."""

    def __init__(self, prop_id: str, tier: str, seed: int, repo):
        self.prop = prop_id
        self.tier = tier
        self.seed = seed
        self.repo = repo
        from . import conds

        conds.INT_TEXTS = set(repo.int_texts) if hasattr(repo, "int_texts") else set()
        from . import summary as _summary

        _summary.SEQ_TEXTS = set(repo.seq_texts) if hasattr(repo, "seq_texts") else set()
        _summary.STR_ATTRS = set(repo.str_attrs) if hasattr(repo, "str_attrs") else set()
        from . import normal as _normal

        fresh, stale = set(), set()
        for f in getattr(repo, "functions", ()):
            rets = [n for n in ast.walk(f.node) if isinstance(n, ast.Return)]
            if not rets and any("abstractmethod" in ast.dump(d) for d in f.node.decorator_list):
                continue  # the declaration of the property in the abstract base
            is_prop = any(isinstance(d, ast.Name) and d.id == "property" for d in f.node.decorator_list)
            (fresh if is_prop and rets and all(isinstance(r.value, ast.Dict) for r in rets) else stale).add(f.node.name)
        _normal.FRESH_DICT_PROPS = fresh - stale
        # class hierarchy facts for case tables: isinstance(x, Sub) implies isinstance(x, Base)
        from .props import _codec

        pairs = {("bool", "int")}
        if hasattr(repo, "classes"):
            short = {}
            for c in repo.classes.values():
                short.setdefault(c.name.split(".")[-1], []).append(c)
            for name, lst in short.items():
                if len(lst) == 1:
                    pairs |= {(name, b.name.split(".")[-1]) for b in lst[0].mro[1:] if len(short.get(b.name.split(".")[-1], ())) == 1}
        _codec.SUBCLASS = pairs
        self.t0 = time.time()
        self.obligations: list[dict] = []
        self.notes: list[str] = []
        self.analysed: dict[str, set] = {"files": set(), "functions": set()}
        self.assumptions: list[str] = []
        self.decides: list[str] = []
        self.not_decided: list[str] = []

    # ------------------------------------------------------------------ recording
    def touch(self, func_or_cls):
        """Record an analysed function/class (for the evidence file)."""
        try:
            self.analysed["files"].add(os.path.relpath(func_or_cls.module.path, self.repo.root))
            self.analysed["functions"].add(getattr(func_or_cls, "qualname", None) or func_or_cls.name)
        except Exception:
            pass

    def ob(self, rule: str, construct: str, ok: bool, what: str, *, key: str = "", where: str = "", nontrivial: bool = True, **facts):
        """One evaluated rule instance.

        rule      rule id, e.g. C05.P2
        construct qualified construct the instance is about (function, class, table row)
        ok        verdict of this instance
        what      one sentence: the obligation (and, when it fails, what fails)
        key       extra discriminator (normalised statement text / instance name) - part of the finding key
        """
        self.obligations.append(
            {
                "rule": rule,
                "construct": construct,
                "ok": bool(ok),
                "what": what,
                "key": key,
                "where": where,
                "nontrivial": nontrivial,
                "facts": {k: _jsonable(v) for k, v in facts.items()},
            },
        )
        return ok

    def require(self, cond: bool, msg: str):
        """Analysis precondition (anchor exists, shape understood). Failing it is exit 2, never a verdict."""
        if not cond:
            raise AnalysisError(msg)

    def floor(self, name: str, count: int, minimum: int):
        if count < minimum:
            raise AnalysisError(f"instance floor undercut for {name}: {count} < {minimum} (rule would pass vacuously)")
        self.notes.append(f"floor {name}: {count} >= {minimum}")


def _jsonable(v):
    if isinstance(v, (str, int, float, bool)) or v is None:
        return v
    if isinstance(v, (list, tuple, set)):
        return [_jsonable(x) for x in v]
    if isinstance(v, dict):
        return {str(k): _jsonable(x) for k, x in v.items()}
    return str(v)


def load_known(prop_id: str):
    if not os.path.exists(KNOWN_FINDINGS):
        return []
    with open(KNOWN_FINDINGS, encoding="utf-8") as handle:
        data = json.load(handle)
    return [e for e in data.get("findings", []) if e.get("property") == prop_id]


def matches(entry: dict, ob: dict) -> bool:
    if entry.get("rule") != ob["rule"] or entry.get("construct") != ob["construct"]:
        return False
    if entry.get("key") and entry["key"] != ob["key"]:
        return False
    return True


def share(ctx: Ctx, rule: str, fn, *args, only=None, **kwargs) -> None:
    """Run a rule group that belongs to another property and claim its obligations under `rule` of this one (a clause
    that two properties state is decided by the same rules).  only: keep obligations whose original rule id is in `only`."""
    sub = type(ctx)(ctx.prop, ctx.tier, ctx.seed, ctx.repo)
    fn(sub, *args, **kwargs)
    for o in sub.obligations:
        if only is not None and o["rule"] not in only:
            continue
        o = dict(o)
        o["rule"] = rule
        ctx.obligations.append(o)
    for kind in ("files", "functions"):
        ctx.analysed[kind] |= sub.analysed[kind]


def run_rules(ctx: Ctx, mod) -> None:
    """The property's rules, then the reference models.  A spelling a later rule cannot read (AnalysisError) does not
    erase a violation an earlier rule has already established: the violation is reported, the rest is noted as not
    analysed.  Without such a violation the analysis error stands (exit 2)."""
    from . import refmodels
    from .model import AnalysisError

    try:
        mod.run(ctx)
    except AnalysisError as exc:
        known = [e for e in load_known(ctx.prop) if e.get("status") == "known"]
        fresh = [o for o in ctx.obligations if not o["ok"] and not any(matches(e, o) for e in known)]
        if not fresh:
            # the path rules cannot read this spelling; the reference models may still establish a violation on their own
            before = len(ctx.obligations)
            try:
                refmodels.check(ctx)
            except AnalysisError:
                pass
            if not [o for o in ctx.obligations[before:] if not o["ok"] and not any(matches(e, o) for e in known)]:
                raise
        ctx.notes.append(f"analysis stopped early, the violation(s) reported stand on their own: {exc}")
        return
    try:
        refmodels.check(ctx)
    except AnalysisError as exc:
        # a modelled function is gone or unreadable: a violation a path rule has established is reported all the same
        known = [e for e in load_known(ctx.prop) if e.get("status") == "known"]
        if not [o for o in ctx.obligations if not o["ok"] and not any(matches(e, o) for e in known)]:
            raise
        ctx.notes.append(f"analysis stopped early, the violation(s) reported stand on their own: {exc}")


def finish(ctx: Ctx, meta: dict) -> int:
    """Print verdict lines, write evidence, return exit code."""
    known = [e for e in load_known(ctx.prop) if e.get("status") == "known"]
    failing = [o for o in ctx.obligations if not o["ok"]]
    known_hits = []
    violations = []
    for o in failing:
        hit = next((e for e in known if matches(e, o)), None)
        if hit is not None:
            known_hits.append((hit, o))
        else:
            violations.append(o)
    total = len(ctx.obligations)
    distinct = {(o["rule"], o["construct"], o["key"]) for o in ctx.obligations if o["nontrivial"]}
    evid_dir = os.path.join(OUT_DIR, "evidence")
    os.makedirs(evid_dir, exist_ok=True)
    replay_path = ""
    if violations:
        rdir = os.path.join(OUT_DIR, "replay")
        os.makedirs(rdir, exist_ok=True)
        replay_path = os.path.join(rdir, f"{ctx.prop}.json")
        with open(replay_path, "w", encoding="utf-8") as handle:
            json.dump({"property": ctx.prop, "tier": ctx.tier, "violations": violations}, handle, indent=1)
    by_rule: dict[str, list[int]] = {}
    for o in ctx.obligations:
        r = by_rule.setdefault(o["rule"], [0, 0])
        r[0] += 1
        r[1] += 1 if o["ok"] else 0
    samples = []
    seen_rules = set()
    for o in ctx.obligations:
        if o["rule"] not in seen_rules:
            seen_rules.add(o["rule"])
            samples.append({k: o[k] for k in ("rule", "construct", "what", "where", "ok", "facts")})
    evidence = {
        "property_id": ctx.prop,
        "tier": ctx.tier,
        "seed": ctx.seed,
        "level": "other",
        "coverage": {
            "explanation": meta.get("explanation", ""),
            "evaluations": total,
            "distinct_nontrivial": len(distinct),
            "rule": "each evaluation is one static rule instance (rule id x construct x instance key) evaluated on the "
            "current source of /repo; non-trivial = the instance's obligation is not vacuous (the construct exists and "
            "has the facts the rule compares); distinct = distinct (rule, construct, key) triples",
            "obligations": total,
            "discharged": total - len(failing),
            "known_findings_matched": [
                {"rule": e["rule"], "construct": e["construct"], "what": e.get("what", "")} for e, _ in known_hits
            ],
            "rules": {r: {"instances": v[0], "holding": v[1]} for r, v in sorted(by_rule.items())},
            "samples": samples[:40],
            "analysed_files": sorted(ctx.analysed["files"]),
            "analysed_functions": sorted(ctx.analysed["functions"]),
            "floors": ctx.notes,
            "decides": meta.get("decides", []),
            "does_not_decide": meta.get("does_not_decide", []),
            "checker_cmd": f"/venv/bin/python -m sa.check {ctx.prop} --tier {ctx.tier}",
            "trusted_base": [
                "CPython ast parser",
                "the checker in /verif/sa",
                "reference tables transcribed from SEMI E4/E5/E30/E37 in /verif/sa/reference",
            ],
            "exhaustive": False,
        },
        "assumptions": meta.get("assumptions", []) + ctx.assumptions,
        "wall_s": round(time.time() - ctx.t0, 3),
        "violations": len(violations),
    }
    extra = meta.get("coverage_extra")
    if extra:
        evidence["coverage"].update(extra)
    with open(os.path.join(evid_dir, f"{ctx.prop}.json"), "w", encoding="utf-8") as handle:
        json.dump(evidence, handle, indent=1, sort_keys=False)
        handle.write("\n")

    print(f"[{ctx.prop}] tier={ctx.tier} rule instances={total} holding={total - len(failing)} "
          f"known={len(known_hits)} violations={len(violations)} wall={evidence['wall_s']}s")
    for rule, v in sorted(by_rule.items()):
        print(f"  {rule}: {v[1]}/{v[0]} instances hold")
    printed = set()
    for entry, o in known_hits:
        ident = (entry["rule"], entry["construct"], entry.get("key", ""))
        if ident in printed:
            continue
        printed.add(ident)
        print(f"KNOWN-FINDING: property={ctx.prop} {entry['rule']} {entry['construct']}: {entry.get('what', o['what'])}")
    for o in violations:
        print(f"  FAIL {o['rule']} {o['construct']} [{o['where']}]: {o['what']}" + (f"  | {o['key']}" if o["key"] else ""))
    if violations:
        print(f"VIOLATION property={ctx.prop} replay={replay_path}")
        return 1
    return 0
