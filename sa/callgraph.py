"""Engine A'/C: callee resolution for the repository's idioms and interprocedural explicit-raise escape.

Resolution covers what the rules need: self.m(), super().m(), self.<field>.m() through field types taken from
`self.<field> = Cls(...)` in __init__ (plus a short table for property chains such as settings.streams_functions),
Cls.m(), and module-level functions.  Dynamic dispatch that the repo performs through its own idioms (event
registration, CallbackHandler name dispatch, thread/timer targets) is resolved by the rules that need it.
"""

from __future__ import annotations

import ast

from .model import AnalysisError, ClassInfo, FuncInfo, call_name, calls_in, dotted, norm, walk_no_nested
from . import rules

# attribute-name -> class, for receivers reached through properties / settings objects (verified to exist on load)
FIELD_TABLE = {
    "streams_functions": "StreamsFunctions",
    "_connection_state": "ConnectionStateMachine",
    "connection_state": "ConnectionStateMachine",
    "_communication_state": "CommunicationStateMachine",
    "communication_state": "CommunicationStateMachine",
    "_control_state": "ControlStateMachine",
    "control_state": "ControlStateMachine",
    "_receive_buffer": "ByteQueue",
    "_thread": "ProtocolDispatcher",
    "_callback_handler": "CallbackHandler",
    "callbacks": "CallbackHandler",
    "protocol": "Protocol",
    "_protocol": "Protocol",
    "events": "EventProducer",
    "_event_producer": "EventProducer",
}

BROAD = {"Exception", "BaseException", ""}


class CallGraph:
    def __init__(self, repo):
        self.repo = repo
        for attr, cname in FIELD_TABLE.items():
            if not repo.has_cls(cname):
                raise AnalysisError(f"field table: class {cname} (for .{attr}) not found")
        self._field_types: dict[str, dict[str, ClassInfo]] = {}
        self._raises_memo: dict[int, set[str]] = {}
        self._in_progress: set[int] = set()

    # ------------------------------------------------------------------ field types
    def field_types(self, cls: ClassInfo) -> dict[str, ClassInfo]:
        if cls.qualname in self._field_types:
            return self._field_types[cls.qualname]
        out: dict[str, ClassInfo] = {}
        for c in reversed(cls.mro):
            init = c.methods.get("__init__")
            if init is None:
                continue
            for st in rules.func_stmts(init.node):
                if isinstance(st, (ast.Assign, ast.AnnAssign)) and isinstance(st.value, ast.Call):
                    for t in rules.assigned_targets(st):
                        d = dotted(t)
                        if d and d.startswith("self.") and d.count(".") == 1:
                            cn = call_name(st.value)
                            if cn:
                                target = self.repo.resolve(c.module, cn)
                                if isinstance(target, ClassInfo):
                                    out[d.split(".", 1)[1]] = target
        self._field_types[cls.qualname] = out
        return out

    # ------------------------------------------------------------------ resolution
    def resolve_call(self, call: ast.Call, func: FuncInfo) -> list[FuncInfo]:
        """Possible callees (class-hierarchy resolution for self.m()); [] when unknown/external."""
        name = call_name(call)
        if not name:
            return []
        parts = name.split(".")
        cls = func.cls
        repo = self.repo
        if parts[0] in ("self", "cls") and cls is not None:
            if len(parts) == 2:
                mname = self._mangle(parts[1], cls)
                out = []
                # the method as seen from every concrete class of the cone (CHA)
                seen = set()
                for c in [cls] + repo.subclasses(cls.name):
                    m = c.find_method(mname) or c.find_method(parts[1])
                    if m is not None and id(m) not in seen:
                        seen.add(id(m))
                        out.append(m)
                return out
            if len(parts) >= 3:
                recv_attr = parts[-2]
                target_cls = None
                if len(parts) == 3:
                    target_cls = self.field_types(cls).get(recv_attr)
                if target_cls is None and recv_attr in FIELD_TABLE:
                    target_cls = repo.cls(FIELD_TABLE[recv_attr])
                if target_cls is not None:
                    out = []
                    seen = set()
                    for c in [target_cls] + repo.subclasses(target_cls.name):
                        m = c.find_method(parts[-1])
                        if m is not None and id(m) not in seen:
                            seen.add(id(m))
                            out.append(m)
                    return out
                return []
        if name.startswith("super()."):
            if cls is not None:
                for c in cls.mro[1:]:
                    if parts[-1] in c.methods:
                        return [c.methods[parts[-1]]]
            return []
        target = repo.resolve(func.module, name)
        if isinstance(target, FuncInfo):
            return [target]
        if isinstance(target, ClassInfo):
            init = target.find_method("__init__")
            return [init] if init is not None else []
        if isinstance(target, tuple):
            m = target[0].find_method(target[1])
            return [m] if m is not None else []
        if len(parts) >= 2 and parts[-2] in FIELD_TABLE:
            tc = repo.cls(FIELD_TABLE[parts[-2]])
            m = tc.find_method(parts[-1])
            return [m] if m is not None else []
        return []

    @staticmethod
    def _mangle(name: str, cls: ClassInfo) -> str:
        return name

    # ------------------------------------------------------------------ explicit raise escape
    def raises(self, func: FuncInfo, depth=0) -> set[str]:
        """Exception class names that may escape `func` through explicit raise statements (own or of resolved
        callees) not covered by an enclosing handler."""
        key = id(func.node)
        if key in self._raises_memo:
            return self._raises_memo[key]
        if key in self._in_progress or depth > 8:
            return set()
        self._in_progress.add(key)
        out: set[str] = set()

        def visit(node, handlers_stack):
            if isinstance(node, (ast.FunctionDef, ast.AsyncFunctionDef, ast.Lambda, ast.ClassDef)) and node is not func.node:
                return
            if isinstance(node, ast.Try):
                caught = []
                for h in node.handlers:
                    if h.type is None:
                        caught.append("")
                    elif isinstance(h.type, ast.Tuple):
                        caught.extend(norm(e).split(".")[-1] for e in h.type.elts)
                    else:
                        caught.append(norm(h.type).split(".")[-1])
                for st in node.body:
                    visit(st, handlers_stack + [caught])
                for h in node.handlers:
                    for st in h.body:
                        visit(st, handlers_stack)
                for st in node.orelse + node.finalbody:
                    visit(st, handlers_stack)
                return
            if isinstance(node, ast.Raise):
                exc = node.exc
                ename = None
                if isinstance(exc, ast.Call):
                    ename = (dotted(exc.func) or "?").split(".")[-1]
                elif exc is not None:
                    ename = (dotted(exc) or "?").split(".")[-1]
                    if ename and ename[:1].islower():
                        ename = "Exception"  # re-raise of a caught variable
                else:
                    ename = "Exception"
                if not self._covered(ename, handlers_stack):
                    out.add(ename)
            if isinstance(node, ast.Call):
                for callee in self.resolve_call(node, func):
                    if any("abstractmethod" in (d or "") for d in callee.decorators):
                        continue
                    for e in self.raises(callee, depth + 1):
                        if not self._covered(e, handlers_stack):
                            out.add(e)
            for ch in ast.iter_child_nodes(node):
                visit(ch, handlers_stack)

        for st in func.node.body:
            visit(st, [])
        self._in_progress.discard(key)
        self._raises_memo[key] = out
        return out

    def _covered(self, ename: str, handlers_stack) -> bool:
        for caught in handlers_stack:
            for c in caught:
                if c in BROAD or c == ename:
                    return True
                # class hierarchy of repository exceptions
                if self.repo.has_cls(ename) and self.repo.has_cls(c) and self.repo.cls(ename).is_subclass_of(c):
                    return True
                if c == "LookupError" and ename in ("KeyError", "IndexError"):
                    return True
                if c == "OSError" and ename in ("ConnectionError", "TimeoutError", "BrokenPipeError"):
                    return True
        return False

    def call_raises(self, call: ast.Call, func: FuncInfo) -> set[str]:
        out = set()
        for callee in self.resolve_call(call, func):
            out |= self.raises(callee)
        return out


def enclosing_handlers(func_node, target) -> list[list[str]]:
    """For each enclosing try (outermost first) whose *body* contains target: the caught exception names."""
    res: list[list[str]] = []

    def rec(n, stack):
        if n is target:
            res.extend(stack)
            return True
        for field, value in ast.iter_fields(n):
            children = value if isinstance(value, list) else [value]
            for ch in children:
                if not isinstance(ch, ast.AST):
                    continue
                if isinstance(ch, (ast.FunctionDef, ast.AsyncFunctionDef, ast.Lambda, ast.ClassDef)):
                    continue
                add = []
                if isinstance(n, ast.Try) and field == "body":
                    caught = []
                    for h in n.handlers:
                        if h.type is None:
                            caught.append("")
                        elif isinstance(h.type, ast.Tuple):
                            caught.extend(norm(e).split(".")[-1] for e in h.type.elts)
                        else:
                            caught.append(norm(h.type).split(".")[-1])
                    add = [caught]
                if rec(ch, stack + add):
                    return True
        return False

    rec(func_node, [])
    return res


def broadly_guarded(func_node, target) -> bool:
    return any(any(c in BROAD for c in caught) for caught in enclosing_handlers(func_node, target))


def get(repo) -> CallGraph:
    cg = getattr(repo, "_sa_callgraph", None)
    if cg is None:
        cg = CallGraph(repo)
        repo._sa_callgraph = cg
    return cg
