"""Engine D: bit-provenance abstract evaluation of the small pure header/length codec functions.

Abstract domain: an integer is a vector of bits, each bit being the constant 0, the constant 1, a *provenance*
(field, k) = "bit k of input field `field`", or TOP (unknown).  The transfer functions cover exactly what the codec
functions use: masks with constants, constant shifts, or / disjoint add, struct.pack / unpack with constant formats,
bytes(bytearray((..))), byte indexing, comparison with constants where the interval of the value decides it,
equality of a one-bit value with 1, `if` on a one-bit field (both branches evaluated and merged bit-wise), and
`for _ in range(n)` with a concrete n.  Anything else raises Unsupported (=> exit 2, never a verdict).

Nothing is executed: the functions' ASTs are interpreted over this domain; the verdicts are identities between
provenance vectors, so they hold for *all* values of the input fields.
"""

from __future__ import annotations

import ast
import struct

from .model import AnalysisError, dotted, norm

TOP = "T"
_MISSING = object()


class Unsupported(AnalysisError):
    pass


class LayoutViolation(AnalysisError):
    """A definite deviation from the prescribed encoding found while evaluating (wrong byte order, a field that does
    not fit its struct code): reported by the checkers as a failed obligation, not as an analysis error."""


class NeedSplit(Exception):
    """A comparison of a raw input field with a constant is not decided on the field's current interval; the driver
    splits the interval at `points` (each point p separates [lo, p-1] from [p, hi]) and re-evaluates."""

    def __init__(self, field, points):
        self.field, self.points = field, points


class NeedDecision(Exception):
    """A branch condition over derived symbolic values is undecided; the driver explores both outcomes."""

    def __init__(self, text):
        self.text = text


class RaiseOutcome(Exception):
    def __init__(self, exc_name):
        self.exc_name = exc_name


class SymInt:
    """Non-negative integer as list of bits, index 0 = least significant.  lo/hi: known inclusive range."""

    __slots__ = ("bits", "lo", "hi")

    def __init__(self, bits, lo=None, hi=None):
        # strip high zero bits
        bits = list(bits)
        while bits and bits[-1] == 0:
            bits.pop()
        self.bits = bits
        self.lo = 0 if lo is None else lo
        self.hi = (1 << len(bits)) - 1 if hi is None else min(hi, (1 << len(bits)) - 1 if bits else 0)

    @staticmethod
    def field(name, width, lo=None, hi=None):
        return SymInt([(name, k) for k in range(width)], lo, hi)

    @staticmethod
    def const(v: int):
        if v < 0:
            raise Unsupported(f"negative constant {v}")
        return SymInt([(v >> k) & 1 for k in range(v.bit_length())], v, v)

    def is_const(self):
        return all(b in (0, 1) for b in self.bits)

    def value(self):
        return sum(b << k for k, b in enumerate(self.bits))

    def bit(self, k):
        return self.bits[k] if k < len(self.bits) else 0

    def width(self):
        return len(self.bits)

    def __repr__(self):
        if self.is_const():
            return f"Const({self.value()})"
        return "Sym[" + " ".join(_bitstr(b) for b in reversed(self.bits)) + "]"

    def same(self, other: "SymInt") -> bool:
        n = max(self.width(), other.width())
        return all(self.bit(k) == other.bit(k) for k in range(n))


def _bitstr(b):
    if b in (0, 1):
        return str(b)
    if b == TOP:
        return "?"
    return f"{b[0]}.{b[1]}"


def as_sym(v) -> SymInt:
    if isinstance(v, SymInt):
        return v
    if isinstance(v, bool):
        return SymInt.const(int(v))
    if isinstance(v, int):
        return SymInt.const(v)
    raise Unsupported(f"not an integer value: {v!r}")


def op_and(a: SymInt, b: SymInt) -> SymInt:
    n = max(a.width(), b.width())
    out = []
    for k in range(n):
        x, y = a.bit(k), b.bit(k)
        if x == 0 or y == 0:
            out.append(0)
        elif x == 1:
            out.append(y)
        elif y == 1:
            out.append(x)
        elif x == y:
            out.append(x)
        else:
            out.append(TOP)
    return SymInt(out)


def op_or(a: SymInt, b: SymInt, disjoint_required=False) -> SymInt:
    n = max(a.width(), b.width())
    out = []
    for k in range(n):
        x, y = a.bit(k), b.bit(k)
        if x == 0:
            out.append(y)
        elif y == 0:
            out.append(x)
        elif disjoint_required:
            raise Unsupported("addition of values that overlap bit-wise (carry possible)")
        elif x == 1 or y == 1:
            out.append(1)
        elif x == y:
            out.append(x)
        else:
            out.append(TOP)
    return SymInt(out)


def op_shl(a: SymInt, k: int) -> SymInt:
    return SymInt([0] * k + a.bits)


def op_shr(a: SymInt, k: int) -> SymInt:
    return SymInt(a.bits[k:])


class SymBytes:
    """bytes object: list of 8-bit SymInt; or concrete bytes"""

    def __init__(self, items):
        self.items = list(items)

    def __len__(self):
        return len(self.items)

    def __repr__(self):
        return "Bytes(" + ", ".join(repr(i) for i in self.items) + ")"


_STRUCT_SIZES = {"B": 1, "H": 2, "L": 4, "I": 4, "Q": 8, "b": 1, "h": 2, "l": 4, "i": 4, "q": 8}


def parse_format(fmt: str):
    if not fmt or fmt[0] not in "><!=@":
        raise Unsupported(f"struct format {fmt!r} has no explicit byte order")
    order = fmt[0]
    codes = []
    num = ""
    for ch in fmt[1:]:
        if ch.isdigit():
            num += ch
            continue
        if ch == "s":
            codes.append(("s", int(num or "1")))
        elif ch in _STRUCT_SIZES:
            for _ in range(int(num or "1")):
                codes.append((ch, _STRUCT_SIZES[ch]))
        elif ch.isspace():
            pass
        else:
            raise Unsupported(f"struct code {ch!r}")
        num = ""
    return order, codes


def pack(fmt: str, args) -> SymBytes:
    order, codes = parse_format(fmt)
    if order not in (">", "!"):
        raise LayoutViolation(f"struct format {fmt!r} is not big-endian (network byte order is prescribed)")
    if len(codes) != len(args):
        raise Unsupported(f"struct.pack({fmt!r}) with {len(args)} values")
    out = []
    for (code, size), arg in zip(codes, args):
        if code == "s":
            if not isinstance(arg, SymBytes) or len(arg) != size:
                raise Unsupported("struct 's' field with a non-bytes or mis-sized value")
            out.extend(arg.items)
            continue
        v = as_sym(arg)
        if v.width() > 8 * size:
            raise PackOverflow(fmt, code, v)
        for i in range(size - 1, -1, -1):
            out.append(SymInt(v.bits[8 * i: 8 * i + 8]))
    return SymBytes(out)


class PackOverflow(LayoutViolation):
    def __init__(self, fmt, code, value):
        super().__init__(f"value {value!r} does not fit struct code {code!r} of {fmt!r}")
        self.fmt, self.code, self.value = fmt, code, value


def unpack(fmt: str, data: SymBytes):
    order, codes = parse_format(fmt)
    if order not in (">", "!"):
        raise LayoutViolation(f"struct format {fmt!r} is not big-endian (network byte order is prescribed)")
    total = sum(size for _, size in codes)
    if total != len(data):
        raise Unsupported(f"struct.unpack({fmt!r}) on {len(data)} bytes")
    out = []
    pos = 0
    for code, size in codes:
        chunk = data.items[pos: pos + size]
        pos += size
        if code == "s":
            out.append(SymBytes(chunk))
            continue
        if code.islower():
            raise LayoutViolation(f"struct code '{code}' in {fmt!r} reads a header field as a signed number: values with the top bit set come back negative (the fields are unsigned)")
        bits = []
        for item in reversed(chunk):
            bits.extend(item.bits + [0] * (8 - item.width()))
        out.append(SymInt(bits))
    return tuple(out)


class Obj:
    """Opaque constructed object: class name + evaluated arguments (positional and keyword)."""

    def __init__(self, cls, args, kwargs):
        self.cls, self.args, self.kwargs = cls, args, kwargs

    def __repr__(self):
        return f"{self.cls}({self.args}, {self.kwargs})"


class Evaluator:
    """Interprets one function body over the abstract domain."""

    def __init__(self, repo, func, env: dict, attr_env: dict | None = None, hooks: dict | None = None, decisions=None):
        self.repo = repo
        self.func = func
        self.env = dict(env)  # local names
        self.attr = dict(attr_env or {})  # dotted names such as self.stream -> value
        self.hooks = hooks or {}
        self.decisions = list(decisions or [])  # forced outcomes of undecided branches, in evaluation order
        self._decision_index = 0
        self.decision_log: list[str] = []
        # private helpers of the same class are part of the function (format byte computed by a helper, ...)
        from . import inline

        try:
            self.node = inline.expand(repo, func)[0] if getattr(func, "cls", None) is not None else func.node
        except Exception:  # pylint: disable=broad-except
            self.node = func.node

    def _decide(self, text):
        if self._decision_index < len(self.decisions):
            v = self.decisions[self._decision_index]
            self._decision_index += 1
            self.decision_log.append(f"{text} := {v}")
            return v
        raise NeedDecision(text)

    # ---------------------------------------------------------------- statements
    def run(self):
        try:
            self._block(self.node.body)
        except _Return as r:
            return r.value
        return None

    def _block(self, stmts):
        for st in stmts:
            if st.__class__.__name__ == "InlineBlock":
                if any(x.__class__.__name__ == "LeaveBlock" for x in ast.walk(st)):
                    raise Unsupported("inlined helper with early exits")
                self._block(st.body)
                continue
            self._stmt(st)

    def _stmt(self, st):
        if isinstance(st, ast.Expr):
            if isinstance(st.value, ast.Constant):
                return
            self.expr(st.value)
            return
        if isinstance(st, ast.Assign):
            v = self.expr(st.value)
            for t in st.targets:
                self._assign(t, v)
            return
        if isinstance(st, ast.AnnAssign):
            if st.value is not None:
                self._assign(st.target, self.expr(st.value))
            return
        if isinstance(st, ast.AugAssign):
            cur = self.expr(st.target)
            v = self._binop(st.op, cur, self.expr(st.value))
            self._assign(st.target, v)
            return
        if isinstance(st, ast.Return):
            raise _Return(self.expr(st.value) if st.value is not None else None)
        if isinstance(st, ast.Raise):
            name = "Exception"
            if isinstance(st.exc, ast.Call):
                name = (dotted(st.exc.func) or "Exception").split(".")[-1]
            raise RaiseOutcome(name)
        if isinstance(st, ast.If):
            c = self.expr(st.test)
            if isinstance(c, bool) or (isinstance(c, SymInt) and c.is_const()):
                taken = bool(c if isinstance(c, bool) else c.value())
                self._block(st.body if taken else st.orelse)
                return
            if isinstance(c, SymInt) and c.width() == 1 and c.bits[0] not in (TOP,):
                self._merge_if(st, c.bits[0])
                return
            raise Unsupported(f"branch on a value that is not decided: `{norm(st.test)}` = {c!r}")
        if isinstance(st, ast.While):
            for _ in range(16):
                c = self.expr(st.test)
                if isinstance(c, SymInt) and c.is_const():
                    c = bool(c.value())
                if not isinstance(c, bool):
                    raise Unsupported(f"loop condition `{norm(st.test)}` is not decided")
                if not c:
                    self._block(st.orelse)
                    return
                self._block(st.body)
            raise Unsupported(f"loop `while {norm(st.test)}` does not finish within 16 iterations")
        if isinstance(st, ast.For):
            it = self.expr(st.iter)
            if not isinstance(it, range):
                raise Unsupported(f"for over `{norm(st.iter)}`")
            for i in it:
                self._assign(st.target, i)
                self._block(st.body)
            return
        if isinstance(st, ast.Pass):
            return
        raise Unsupported(f"statement `{norm(st)}`")

    def _merge_if(self, st, cond_bit):
        """if <one-bit field>: ...  - evaluate both branches on copies and merge the assigned names bit-wise."""
        snap_env, snap_attr = dict(self.env), dict(self.attr)
        self._block(st.body)
        then_env = self.env
        self.env, self.attr = dict(snap_env), dict(snap_attr)
        self._block(st.orelse)
        else_env = self.env
        merged = {}
        for k in set(then_env) | set(else_env):
            a, b = then_env.get(k), else_env.get(k)
            if a is b or (isinstance(a, (int, str, bytes, bool, type(None))) and a == b):
                merged[k] = a
                continue
            if a is None or b is None:
                raise Unsupported(f"name {k} assigned in only one branch")
            sa_, sb = as_sym(a), as_sym(b)
            n = max(sa_.width(), sb.width())
            bits = []
            for i in range(n):
                x, y = sa_.bit(i), sb.bit(i)
                if x == y:
                    bits.append(x)
                elif x == 1 and y == 0:
                    bits.append(cond_bit)
                else:
                    bits.append(TOP)
            merged[k] = SymInt(bits)
        self.env = merged

    def _assign(self, target, value):
        if isinstance(target, ast.Name):
            self.env[target.id] = value
        elif isinstance(target, ast.Tuple):
            if not isinstance(value, tuple) or len(value) != len(target.elts):
                raise Unsupported(f"tuple assignment `{norm(target)}`")
            for t, v in zip(target.elts, value):
                self._assign(t, v)
        elif isinstance(target, ast.Attribute):
            d = dotted(target)
            if d is None:
                raise Unsupported(f"assignment to `{norm(target)}`")
            self.attr[d] = value
        else:
            raise Unsupported(f"assignment to `{norm(target)}`")

    # ---------------------------------------------------------------- expressions
    def expr(self, e):
        if isinstance(e, ast.Constant):
            return e.value
        if isinstance(e, ast.Name):
            if e.id in self.env:
                return self.env[e.id]
            if e.id in ("True", "False", "None"):
                return {"True": True, "False": False, "None": None}[e.id]
            raise Unsupported(f"unknown name {e.id}")
        if isinstance(e, ast.Attribute):
            d = dotted(e)
            if d is not None and d in self.attr:
                return self.attr[d]
            if d is not None:
                if d in self.hooks:
                    return self.hooks[d](self)
                # class constant (self.length, cls.length_format, HsmsSType.X ...)
                try:
                    return self._class_const(d)
                except AnalysisError as exc:
                    raise Unsupported(f"attribute `{d}`: {exc}") from exc
            base = self.expr(e.value)
            if isinstance(base, Obj) and e.attr in base.kwargs:
                return base.kwargs[e.attr]
            raise Unsupported(f"attribute `{norm(e)}`")
        if isinstance(e, ast.BinOp):
            return self._binop(e.op, self.expr(e.left), self.expr(e.right))
        if isinstance(e, ast.UnaryOp) and isinstance(e.op, ast.Not):
            v = self.expr(e.operand)
            if isinstance(v, bool):
                return not v
            raise Unsupported(f"not of `{norm(e.operand)}`")
        if isinstance(e, ast.UnaryOp) and isinstance(e.op, ast.USub):
            v = self.expr(e.operand)
            if isinstance(v, int):
                return -v
            raise Unsupported("negation of a symbolic value")
        if isinstance(e, ast.Compare) and len(e.ops) == 1:
            return self._compare(e.ops[0], self.expr(e.left), self.expr(e.comparators[0]), e)
        if isinstance(e, ast.Compare) and len(e.ops) == 2:
            # a <= b != c  style chains
            a, b, c = self.expr(e.left), self.expr(e.comparators[0]), self.expr(e.comparators[1])
            first = self._compare(e.ops[0], a, b, e)
            second = self._compare(e.ops[1], b, c, e)
            if isinstance(first, bool) and isinstance(second, bool):
                return first and second
            if first is True:
                return second
            if first is False:
                return False
            raise Unsupported(f"chained comparison `{norm(e)}`")
        if isinstance(e, ast.BoolOp):
            is_and = isinstance(e.op, ast.And)
            for sub in e.values:  # short-circuit like Python does
                v = self.expr(sub)
                if isinstance(v, SymInt) and v.is_const():
                    v = bool(v.value())
                if not isinstance(v, bool):
                    v = self._decide(norm(sub))  # undecided on symbolic fields: the caller explores both outcomes or reports the dependence
                if is_and and not v:
                    return False
                if not is_and and v:
                    return True
            return is_and
        if isinstance(e, (ast.Tuple, ast.List)):
            out = []
            for x in e.elts:
                if isinstance(x, ast.Starred):
                    inner = self.expr(x.value)
                    if isinstance(inner, SymBytes):
                        inner = list(inner.items)
                    if not isinstance(inner, (list, tuple)):
                        raise Unsupported(f"starred `{norm(x)}`")
                    out.extend(inner)
                else:
                    out.append(self.expr(x))
            return tuple(out) if isinstance(e, ast.Tuple) else out
        if isinstance(e, (ast.ListComp, ast.GeneratorExp)) and len(e.generators) == 1 and isinstance(e.generators[0].target, ast.Name):
            g = e.generators[0]
            it = self.expr(g.iter)
            if not isinstance(it, (range, list, tuple)):
                raise Unsupported(f"comprehension over `{norm(g.iter)}`")
            out = []
            saved = self.env.get(g.target.id, _MISSING)
            for v in it:
                self.env[g.target.id] = v
                keep = True
                for cond in g.ifs:
                    c = self.expr(cond)
                    if not isinstance(c, bool):
                        raise Unsupported(f"comprehension filter `{norm(cond)}`")
                    keep = keep and c
                if keep:
                    out.append(self.expr(e.elt))
            if saved is _MISSING:
                self.env.pop(g.target.id, None)
            else:
                self.env[g.target.id] = saved
            return out
        if isinstance(e, ast.Subscript):
            return self._subscript(e)
        if isinstance(e, ast.JoinedStr):
            out = ""
            for part in e.values:
                if isinstance(part, ast.Constant):
                    out += str(part.value)
                elif isinstance(part, ast.FormattedValue):
                    v = self.expr(part.value)
                    if isinstance(v, SymInt):
                        if not v.is_const():
                            raise Unsupported(f"symbolic value inside f-string `{norm(e)}`")
                        v = v.value()
                    out += str(v)
            return out
        if isinstance(e, ast.Call):
            return self._call(e)
        if isinstance(e, ast.IfExp):
            c = self.expr(e.test)
            if isinstance(c, bool):
                return self.expr(e.body) if c else self.expr(e.orelse)
            if isinstance(c, SymInt) and c.width() == 1:
                # a one-bit flag chooses between two values: merge them bit by bit (flag ? 1 : 0 is the flag itself)
                a, b = as_sym(self.expr(e.body)), as_sym(self.expr(e.orelse))
                bits = []
                for i in range(max(a.width(), b.width())):
                    x, y = a.bit(i), b.bit(i)
                    bits.append(x if x == y else (c.bits[0] if (x == 1 and y == 0) else TOP))
                return SymInt(bits)
            raise Unsupported(f"conditional expression on symbolic value `{norm(e)}`")
        raise Unsupported(f"expression `{norm(e)}`")

    def _class_const(self, d: str):
        parts = d.split(".")
        cls = self.func.cls
        if parts[0] in ("self", "cls") and cls is not None:
            if len(parts) == 2:
                key = ("const", parts[1])
                if key in self.hooks:
                    return self.hooks[key](self)
                return self.repo.const(self.hooks.get("class", cls), parts[1])
            if len(parts) == 3:
                # cls.header_type.length
                inner = self.hooks.get(("type", parts[1]))
                if inner is not None:
                    return self.repo.const(inner, parts[2])
        target = self.repo.resolve(self.func.module, d)
        if isinstance(target, tuple):
            return self.repo.const(target[0], target[1])
        raise AnalysisError(f"cannot resolve {d}")

    def _binop(self, op, a, b):
        if isinstance(a, (int, SymInt)) and isinstance(b, (int, SymInt)) and not (isinstance(a, bool) and False):
            if isinstance(a, int) and isinstance(b, int):
                import operator as o

                table = {ast.Add: o.add, ast.Sub: o.sub, ast.Mult: o.mul, ast.FloorDiv: o.floordiv, ast.LShift: o.lshift, ast.RShift: o.rshift,
                         ast.BitAnd: o.and_, ast.BitOr: o.or_, ast.Mod: o.mod, ast.Pow: o.pow}
                if type(op) in table:
                    return table[type(op)](a, b)
            sa_, sb = as_sym(a), as_sym(b)
            if sa_.is_const() and sb.is_const():
                import operator as o

                table = {ast.Add: o.add, ast.Sub: o.sub, ast.Mult: o.mul, ast.FloorDiv: o.floordiv, ast.LShift: o.lshift, ast.RShift: o.rshift,
                         ast.BitAnd: o.and_, ast.BitOr: o.or_, ast.Mod: o.mod, ast.Pow: o.pow}
                if type(op) in table:
                    res = table[type(op)](sa_.value(), sb.value())
                    return res if res < 0 else SymInt.const(res)
            if isinstance(op, ast.BitAnd):
                return op_and(sa_, sb)
            if isinstance(op, ast.BitOr):
                return op_or(sa_, sb)
            if isinstance(op, ast.Add):
                if sa_.is_const() and sb.is_const():
                    return SymInt.const(sa_.value() + sb.value())
                return op_or(sa_, sb, disjoint_required=True)
            if isinstance(op, ast.LShift):
                if not sb.is_const():
                    raise Unsupported("shift by a symbolic amount")
                return op_shl(sa_, sb.value())
            if isinstance(op, ast.RShift):
                if not sb.is_const():
                    raise Unsupported("shift by a symbolic amount")
                return op_shr(sa_, sb.value())
            if isinstance(op, ast.Mult) and sb.is_const():
                k = sb.value()
                if k and k & (k - 1) == 0:
                    return op_shl(sa_, k.bit_length() - 1)
            if isinstance(op, ast.Mod) and sb.is_const():
                k = sb.value()
                if k and k & (k - 1) == 0:  # x % 2**n: the low n bits
                    return op_and(sa_, SymInt.const(k - 1)) if k > 1 else SymInt.const(0)
            raise Unsupported(f"operator {type(op).__name__} on symbolic values")
        if isinstance(a, SymBytes) and isinstance(b, SymBytes) and isinstance(op, ast.Add):
            return SymBytes(a.items + b.items)
        if isinstance(a, (bytes, SymBytes)) and isinstance(b, (bytes, SymBytes)) and isinstance(op, ast.Add):
            return SymBytes(_to_items(a) + _to_items(b))
        if isinstance(a, str) and isinstance(b, str) and isinstance(op, ast.Add):
            return a + b
        if isinstance(a, tuple) and isinstance(b, tuple) and isinstance(op, ast.Add):
            return a + b
        raise Unsupported(f"operator {type(op).__name__} on {type(a).__name__}/{type(b).__name__}")

    def _compare(self, op, a, b, node):
        if isinstance(a, (int, str, bytes, bool, type(None))) and isinstance(b, (int, str, bytes, bool, type(None))):
            import operator as o

            table = {ast.Eq: o.eq, ast.NotEq: o.ne, ast.Lt: o.lt, ast.LtE: o.le, ast.Gt: o.gt, ast.GtE: o.ge, ast.Is: lambda x, y: x is y, ast.IsNot: lambda x, y: x is not y}
            return table[type(op)](a, b)
        if isinstance(a, SymInt) and isinstance(b, int) and not isinstance(b, bool) or (isinstance(a, SymInt) and isinstance(b, SymInt) and b.is_const()):
            c = b if isinstance(b, int) else b.value()
            lo, hi = a.lo, a.hi
            if a.is_const():
                lo = hi = a.value()
            known = getattr(self, "field_ranges", {}).get(_raw_field(a))
            if known is not None:  # a value re-assembled bit by bit from one input field keeps that field's range
                lo, hi = max(lo, known[0]), min(hi, known[1])
            if not a.is_const() and sum(1 for b_ in a.bits if b_ != 0) == 1 and all(b_ == 0 or isinstance(b_, tuple) for b_ in a.bits):
                # a masked single bit of weight w: `v > c` (0 <= c < w), `v >= c` (1 <= c <= w), `v == w` all read that bit
                k_ = next(i for i, b_ in enumerate(a.bits) if b_ != 0)
                w_ = 1 << k_
                if (isinstance(op, ast.Gt) and 0 <= c < w_) or (isinstance(op, ast.GtE) and 1 <= c <= w_) or (isinstance(op, ast.Eq) and c == w_ and w_ > 1):
                    return SymInt([a.bits[k_]])
            if isinstance(op, ast.Gt):
                if lo > c:
                    return True
                if hi <= c:
                    return False
            elif isinstance(op, ast.GtE):
                if lo >= c:
                    return True
                if hi < c:
                    return False
            elif isinstance(op, ast.Lt):
                if hi < c:
                    return True
                if lo >= c:
                    return False
            elif isinstance(op, ast.LtE):
                if hi <= c:
                    return True
                if lo > c:
                    return False
            elif isinstance(op, (ast.Eq, ast.NotEq)):
                res = None
                if a.is_const():
                    res = a.value() == c
                elif c in (0, 1) and sum(1 for b_ in a.bits if b_ != 0) == 1 and all(b_ in (0,) or isinstance(b_, tuple) for b_ in a.bits):
                    # exactly one bit of the value is not known to be 0: `v != 0`, `v == <that bit's weight>` read that bit
                    k_ = next(i for i, b_ in enumerate(a.bits) if b_ != 0)
                    if c == 0:
                        if isinstance(op, ast.NotEq):
                            return SymInt([a.bits[k_]])
                        return _unsupported("== 0 on a single-bit mask (negated flag)")
                    if c == 1 and k_ == 0:
                        return SymInt([a.bits[0]]) if isinstance(op, ast.Eq) else _unsupported("!= 1 on a one-bit value")
                elif c > hi or c < lo:
                    res = False
                if res is not None:
                    return res if isinstance(op, ast.Eq) else not res
            raw = _raw_field(a)
            if raw is not None:
                if isinstance(op, (ast.Gt, ast.LtE)):
                    pts = [c + 1]
                elif isinstance(op, (ast.GtE, ast.Lt)):
                    pts = [c]
                else:
                    pts = [c, c + 1]
                raise NeedSplit(raw, [p for p in pts if lo < p <= hi])
            return self._decide(norm(node))
        if isinstance(a, int) and isinstance(b, SymInt):
            flip = {ast.Lt: ast.Gt, ast.Gt: ast.Lt, ast.LtE: ast.GtE, ast.GtE: ast.LtE, ast.Eq: ast.Eq, ast.NotEq: ast.NotEq}
            return self._compare(flip[type(op)](), b, a, node)
        if isinstance(a, Obj) or isinstance(b, Obj):
            raise Unsupported(f"comparison of objects `{norm(node)}`")
        raise Unsupported(f"comparison `{norm(node)}`")

    def _subscript(self, e):
        base = self.expr(e.value)
        if isinstance(e.slice, ast.Slice):
            lo = self.expr(e.slice.lower) if e.slice.lower is not None else None
            hi = self.expr(e.slice.upper) if e.slice.upper is not None else None
            lo = lo.value() if isinstance(lo, SymInt) and lo.is_const() else lo
            hi = hi.value() if isinstance(hi, SymInt) and hi.is_const() else hi
            if isinstance(base, SymBytes) and all(isinstance(x, (int, type(None))) for x in (lo, hi)):
                return SymBytes(base.items[lo:hi])
            raise Unsupported(f"slice `{norm(e)}`")
        idx = self.expr(e.slice)
        if isinstance(idx, SymInt) and idx.is_const():
            idx = idx.value()
        if isinstance(base, (tuple, list)) and isinstance(idx, int):
            return base[idx]
        if isinstance(base, SymBytes) and isinstance(idx, int):
            if idx >= len(base.items):
                raise Unsupported(f"index {idx} beyond the modelled input ({len(base.items)} bytes)")
            return base.items[idx]
        raise Unsupported(f"subscript `{norm(e)}`")

    def _call(self, e):
        name = dotted(e.func) or ""
        if name in self.hooks:
            return self.hooks[name](self, e)
        args = []
        for a in e.args:
            if isinstance(a, ast.Starred):  # f(*fields) with fields a tuple / list built before
                inner = self.expr(a.value)
                if isinstance(inner, SymBytes):
                    inner = list(inner.items)
                if not isinstance(inner, (list, tuple)):
                    raise Unsupported(f"starred argument `{norm(a)}`")
                args.extend(inner)
            else:
                args.append(self.expr(a))
        kwargs = {k.arg: self.expr(k.value) for k in e.keywords}
        if name in ("bytes", "bytearray") and len(args) == 1:
            a = args[0]
            if isinstance(a, SymBytes):
                return a
            if isinstance(a, (tuple, list)):
                items = []
                for x in a:
                    v = as_sym(x)
                    if v.width() > 8:
                        raise Unsupported(f"byte value {v!r} wider than 8 bits in `{norm(e)}`")
                    items.append(v)
                return SymBytes(items)
            if isinstance(a, bytes):
                return SymBytes([SymInt.const(x) for x in a])
            raise Unsupported(f"`{norm(e)}`")
        if isinstance(e.func, ast.Attribute) and e.func.attr == "to_bytes" and 1 <= len(args) <= 2:
            # n.to_bytes(k, "big"): the k low bytes of n, most significant first; n must fit (OverflowError otherwise)
            n = as_sym(self.expr(e.func.value))
            k = args[0].value() if isinstance(args[0], SymInt) and args[0].is_const() else args[0]
            order = args[1] if len(args) > 1 else kwargs.get("byteorder", "big")
            if not isinstance(k, int) or order not in ("big", "little"):
                raise Unsupported(f"`{norm(e)}`")
            hi = n.value() if n.is_const() else n.hi
            if hi is not None and hi >= 1 << (8 * k):
                raise PackOverflow(f"to_bytes({k})", "B" * k, n)
            items = [SymInt([n.bit(8 * i + j) for j in range(8)]) for i in range(k)]
            if order == "big":
                items.reverse()
            return SymBytes(items)
        if name == "int.from_bytes" and len(args) >= 1:
            # int.from_bytes(b, "big"): byte k of b supplies bits 8*(n-1-k) .. of the result
            order = args[1] if len(args) > 1 else kwargs.get("byteorder", "big")
            data = args[0]
            if isinstance(data, bytes):
                data = SymBytes([SymInt.const(x) for x in data])
            if not isinstance(data, SymBytes) or order not in ("big", "little") or kwargs.get("signed"):
                raise Unsupported(f"`{norm(e)}`")
            items = list(data.items)
            if order == "big":
                items.reverse()
            bits_ = []
            for it in items:
                v = as_sym(it)
                bits_.extend(v.bit(j) for j in range(8))
            return SymInt(bits_ or [0])
        if name == "struct.pack":
            return pack(args[0], args[1:])
        if name in ("struct.unpack", "struct.unpack_from"):
            data = args[1]
            if name == "struct.unpack_from":
                size = sum(s for _, s in parse_format(args[0])[1])
                data = SymBytes(_to_items(data)[:size])
            return unpack(args[0], data if isinstance(data, SymBytes) else SymBytes(_to_items(data)))
        if name == "reversed" and len(args) == 1 and isinstance(args[0], (range, list, tuple)):
            return list(reversed(args[0]))
        if name == "range" and len(args) == 1:
            n = args[0]
            if isinstance(n, SymInt):
                if not n.is_const():
                    raise Unsupported("range over a symbolic count")
                n = n.value()
            return range(n)
        if name == "len" and len(args) == 1:
            a = args[0]
            if isinstance(a, SymBytes):
                return len(a)
            if isinstance(a, (bytes, tuple, list, str)):
                return len(a)
            if isinstance(a, Obj) and "len" in a.kwargs:
                return a.kwargs["len"]
            raise Unsupported(f"len of `{norm(e.args[0])}`")
        if name == "isinstance":
            raise Unsupported("isinstance")
        # constructor of a repository class: keep as opaque object
        target = self.repo.resolve(self.func.module, name) if name else None
        from .model import ClassInfo

        if isinstance(target, ClassInfo) or name == "cls":
            return Obj(target.name if isinstance(target, ClassInfo) else "cls", args, kwargs)
        raise Unsupported(f"call `{norm(e)}`")


def _raw_field(v: SymInt):
    """Name of the input field if v is exactly that field (bit k = (field, k) for every k), else None."""
    if not v.bits:
        return None
    name = None
    for k, bit in enumerate(v.bits):
        if not (isinstance(bit, tuple) and bit[1] == k):
            return None
        if name is None:
            name = bit[0]
        elif bit[0] != name:
            return None
    return name


def explore_intervals(make_evaluator, field, lo, hi, depth=0):
    """Evaluate for field in [lo, hi], splitting the interval wherever a comparison of the raw field with a constant
    is undecided.  make_evaluator(lo, hi) -> Evaluator.  Returns [(lo, hi, outcome)], outcome = ('return', value) or
    ('raise', exception name)."""
    if depth > 24:
        raise Unsupported("interval exploration too deep")
    ev = make_evaluator(lo, hi)
    try:
        return [(lo, hi, ("return", ev.run()))]
    except RaiseOutcome as r:
        return [(lo, hi, ("raise", r.exc_name))]
    except NeedSplit as s:
        if s.field != field or not s.points:
            raise Unsupported(f"undecided comparison on field {s.field} in [{lo}, {hi}]")
        cuts = sorted(set(s.points))
        out = []
        start = lo
        for p in cuts:
            out += explore_intervals(make_evaluator, field, start, p - 1, depth + 1)
            start = p
        out += explore_intervals(make_evaluator, field, start, hi, depth + 1)
        return out


def explore_decisions(make_evaluator, prefix=(), depth=0):
    """Evaluate, exploring both outcomes of every undecided branch.  make_evaluator(decisions) -> Evaluator.
    Returns [(decision log, outcome)]."""
    if depth > 8:
        raise Unsupported("too many undecided branches")
    ev = make_evaluator(list(prefix))
    try:
        return [(ev.decision_log, ("return", ev.run()))]
    except RaiseOutcome as r:
        return [(ev.decision_log, ("raise", r.exc_name))]
    except NeedDecision:
        return explore_decisions(make_evaluator, tuple(prefix) + (True,), depth + 1) + explore_decisions(make_evaluator, tuple(prefix) + (False,), depth + 1)


def _unsupported(msg):
    raise Unsupported(msg)


def _to_items(b):
    if isinstance(b, SymBytes):
        return list(b.items)
    if isinstance(b, (bytes, bytearray)):
        return [SymInt.const(x) for x in b]
    raise Unsupported(f"not bytes: {b!r}")


class _Return(Exception):
    def __init__(self, value):
        self.value = value


def byte_layout(b: SymBytes):
    """[[bit7..bit0 as strings]] for reports."""
    return [[_bitstr(item.bit(k)) for k in range(7, -1, -1)] for item in b.items]
