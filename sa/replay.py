"""CLI: /venv/bin/python -m sa.replay <replay.json> - print the recorded violations and re-decide the property."""

from __future__ import annotations

import json
import sys

from . import check


def main() -> int:
    path = sys.argv[1]
    with open(path, encoding="utf-8") as handle:
        data = json.load(handle)
    print(f"replay of {data['property']} ({len(data['violations'])} recorded violations)")
    for v in data["violations"]:
        print(f"  {v['rule']} {v['construct']} [{v['where']}]: {v['what']}")
        if v.get("key"):
            print(f"      at: {v['key']}")
        for k, val in (v.get("facts") or {}).items():
            print(f"      {k} = {val}")
    return check.main([data["property"], "--tier", data.get("tier", "quick")])


if __name__ == "__main__":
    sys.exit(main())
