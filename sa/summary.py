"""Abstract summaries of straight-line-plus-loops functions (codecs, splitters, cursor arithmetic).

The summary of a function is computed by abstract interpretation over the syntax tree - nothing is executed and no input
is chosen.  The abstract values are

  Poly    integer polynomials over opaque symbols (`text_pos + _i1*self._bytes`): cursors, lengths, offsets
  Seq     byte strings / lists described by a grammar: elements, `rep(<loop header>: parts)` for what a loop appends
          per iteration (any number of iterations), `if(<cond>: parts | parts)` for branches
  Term    any other expression, as canonical text in which locals are replaced by what they stand for
  Tup     tuples (for unpacking)

Loops are summarised, not unrolled: a variable that changes by a loop-invariant amount per iteration is an induction
variable (value at iteration i = entry + i*delta, after the loop = entry + N*delta); an accumulator that is only appended
to yields a `rep` part; everything else a loop changes becomes an opaque symbol.  Branches are merged (values become
conditional); a branch that raises or returns ends its path.  The result is a list of paths
(conditions, effects, return value / raised exception) in canonical text, the same for every spelling that computes the
same thing with the same cursor arithmetic - `for v in xs: out += f(v)` and `out + b"".join(f(v) for v in xs)`,
`pos += n` per iteration and `start + index * n`, a guard clause and an if/else.

Whatever is outside the fragment (try/except, break, generators, nested functions, starred calls) raises Unsupported:
the caller reports ANALYSIS-ERROR, never a verdict.
"""

from __future__ import annotations

import ast
import re
import copy
import itertools

from . import conds as cnd
from .model import AnalysisError, norm


class Unsupported(AnalysisError):
    pass


# ----------------------------------------------------------------------------------------------- polynomials
class Poly:
    __slots__ = ("t",)

    def __init__(self, terms=None):
        self.t = {m: c for m, c in (terms or {}).items() if c != 0}

    @staticmethod
    def const(c: int) -> "Poly":
        return Poly({(): c})

    @staticmethod
    def sym(s: str) -> "Poly":
        return Poly({(s,): 1})

    def __add__(self, o):
        t = dict(self.t)
        for m, c in o.t.items():
            t[m] = t.get(m, 0) + c
        return Poly(t)

    def __neg__(self):
        return Poly({m: -c for m, c in self.t.items()})

    def __sub__(self, o):
        return self + (-o)

    def __mul__(self, o):
        t: dict = {}
        for m1, c1 in self.t.items():
            for m2, c2 in o.t.items():
                m = tuple(sorted(m1 + m2))
                t[m] = t.get(m, 0) + c1 * c2
        return Poly(t)

    def __eq__(self, o):
        return isinstance(o, Poly) and self.t == o.t

    def __hash__(self):
        return hash(tuple(sorted(self.t.items())))

    def is_const(self):
        return all(m == () for m in self.t)

    def value(self):
        return self.t.get((), 0)

    def syms(self) -> set:
        return {s for m in self.t for s in m}

    def mentions(self, pred) -> bool:
        return any(pred(s) for s in self.syms())

    def __str__(self):
        if not self.t:
            return "0"
        parts = []
        for m in sorted(self.t, key=lambda m: (m == (), len(m), m)):
            c = self.t[m]
            if m == ():
                body = str(abs(c))
            else:
                body = "*".join(m) if abs(c) == 1 else f"{abs(c)}*" + "*".join(m)
            parts.append(("- " if c < 0 else "+ ") + body)
        s = " ".join(parts)
        return s[2:] if s.startswith("+ ") else "-" + s[2:]

    __repr__ = __str__


class Term:
    __slots__ = ("text", "kind", "items")

    def __init__(self, text, kind=None, items=None):
        self.text = text
        self.kind = kind
        self.items = items  # for dict literals with constant string keys: [(key, value text)]

    def __eq__(self, o):
        return isinstance(o, Term) and o.text == self.text

    def __hash__(self):
        return hash(self.text)

    def __repr__(self):
        return self.text


class Seq:
    """kind 'bytes' or 'list'; parts: ('e', text) | ('rep', header, parts) | ('if', cond, parts, parts) | ('acc', name)."""

    __slots__ = ("kind", "parts")

    def __init__(self, kind, parts=()):
        self.kind = kind
        self.parts = tuple(parts)

    def __eq__(self, o):
        return isinstance(o, Seq) and o.parts == self.parts

    def __hash__(self):
        return hash(self.parts)

    def __repr__(self):
        inner = ", ".join(show_part(p) for p in self.parts)
        if self.kind == "dict":
            return "{" + inner + "}"
        if self.kind in ("bytes", "str"):
            if not self.parts:
                return "b''" if self.kind == "bytes" else "''"  # nothing concatenated
            if len(self.parts) == 1 and self.parts[0][0] == "e":
                return inner  # one piece is that piece
            return f"cat({inner})"
        return f"[{inner}]"


class Tup:
    __slots__ = ("items",)

    def __init__(self, items):
        self.items = list(items)

    def __repr__(self):
        return "(" + ", ".join(text(i) for i in self.items) + ("," if len(self.items) == 1 else "") + ")"


def show_part(p) -> str:
    if p[0] == "e":
        return p[1]
    if p[0] == "acc":
        return f"<{p[1]}>"
    if p[0] == "rep":
        return f"rep({p[1]}, " + ", ".join(show_part(x) for x in p[2]) + ")"
    if p[0] == "if":
        return f"when({p[1]!r}, [" + ", ".join(show_part(x) for x in p[2]) + "], [" + ", ".join(show_part(x) for x in p[3]) + "])"
    return repr(p)


def _as_seq(v):
    if isinstance(v, Seq):
        return v
    if isinstance(v, Term) and v.kind in ("bytes", "str"):
        return Seq(v.kind, (("e", v.text),) if v.text not in ("''", "b''") else ())
    return None


_LOOP_VAR = re.compile(r"(?<![A-Za-z0-9_])_[ie]\d+(?![A-Za-z0-9_])")


def _loop_var(t: str) -> bool:
    """The text mentions an element / index variable of a summarised loop (_e1, _i2)."""
    return bool(_LOOP_VAR.search(t))


def _scan_condterm(t: str, ctext: str):
    """(start, end, a, b) of a conditional term `(a if ctext else b)` inside t, located by its shape (balanced
    parentheses around ` if ctext else `); None if there is none."""
    needle = f" if {ctext} else "
    pos = t.find(needle)
    while pos != -1:
        # opening parenthesis: the first unmatched "(" to the left
        depth, i, quote = 0, pos - 1, None
        start = None
        while i >= 0:
            ch = t[i]
            if ch in ")]}":
                depth += 1
            elif ch in "([{":
                if depth == 0:
                    start = i if ch == "(" else None
                    break
                depth -= 1
            i -= 1
        if start is not None:
            depth, j = 0, pos + len(needle)
            end = None
            while j < len(t):
                ch = t[j]
                if ch in "([{":
                    depth += 1
                elif ch in ")]}":
                    if depth == 0:
                        end = j if ch == ")" else None
                        break
                    depth -= 1
                j += 1
            if end is not None:
                return start, end + 1, t[start + 1:pos], t[pos + len(needle):end]
        pos = t.find(needle, pos + 1)
    return None


_LEN_DISPLAY = re.compile(r"len\(\[([^\[\]()]*)\]\)")


def _fold_len(t: str) -> str:
    """len([a, b]) of a display of plain elements (no nested brackets, no repetitions) is their number."""
    def count(m):
        inner = m.group(1).strip()
        if "rep(" in inner or "when(" in inner or "<" in inner:
            return m.group(0)
        return str(0 if not inner else inner.count(",") + 1)

    return _LEN_DISPLAY.sub(count, t) if "len([" in t else t


def _scan_when(t: str, ctext: str):
    """(start, end, a, b) of `when('ctext', [A], [B])` inside t (A, B without their brackets); None if absent."""
    needle = "when(" + repr(ctext) + ", ["
    pos = t.find(needle)
    if pos == -1:
        return None

    def bracket(i):
        """t[i] == '[': index just after the matching ']'."""
        depth = 0
        for j in range(i, len(t)):
            if t[j] in "([{":
                depth += 1
            elif t[j] in ")]}":
                depth -= 1
                if depth == 0:
                    return j + 1
        return None

    a_start = pos + len(needle) - 1
    a_end = bracket(a_start)
    if a_end is None or t[a_end:a_end + 2] != ", " or a_end + 2 >= len(t) or t[a_end + 2] != "[":
        return None
    b_start = a_end + 2
    b_end = bracket(b_start)
    if b_end is None or b_end >= len(t) or t[b_end] != ")":
        return None
    return pos, b_end + 1, t[a_start + 1:a_end - 1], t[b_start + 1:b_end - 1]


def neg_text(ctext: str) -> str:
    if " and " in ctext or " or " in ctext:
        return f"not ({ctext})"
    return ctext[4:] if ctext.startswith("not ") else "not " + ctext


def _if_part(ctext, a, b):
    """`if c: append(True) else: append(False)` is the element `c` itself."""
    if a == (("e", "True"),) and b == (("e", "False"),):
        return ("e", ctext)
    if a == (("e", "False"),) and b == (("e", "True"),):
        return ("e", neg_text(ctext))
    return ("if", ctext, a, b)


def text(v) -> str:
    if isinstance(v, Poly):
        return str(v)
    return repr(v)


def atom_text(v) -> str:
    """Text usable as an operand inside a larger expression."""
    if isinstance(v, Poly):
        s = str(v)
        return s if (len(v.t) <= 1 and not s.startswith("-") and "*" not in s) else f"({s})"
    return repr(v)


def _balanced(t: str) -> bool:
    """The text is one bracket-balanced piece (so that `[` ... `]` around it were one display, not two)."""
    depth = 0
    for ch in t:
        if ch in "([{":
            depth += 1
        elif ch in ")]}":
            depth -= 1
            if depth < 0:
                return False
    return depth == 0


STR_ATTRS: set = set()  # attribute names that only ever hold text literals in the tree under analysis (model.Repo.str_attrs, set by report.Ctx)
SEQ_TEXTS: set = set()  # `self.<name>` texts that only ever hold lists / dicts / texts in the tree under analysis (set by report.Ctx)
STR_CALLS = (".strftime", ".isoformat")  # methods whose result is text whatever the receiver
BYTES_CALLS = ("encode_item_header", "struct.pack", "bytes", "bytearray", ".to_bytes", ".encode", ".join")


# ----------------------------------------------------------------------------------------------- states
class State:
    __slots__ = ("env", "effects", "term", "value")

    def __init__(self, env, effects, term=None, value=None):
        self.env = env
        self.effects = effects
        self.term = term  # None | 'return' | 'raise' | 'continue'
        self.value = value

    def fork(self):
        return State(dict(self.env), list(self.effects))


class Leaf:
    def __init__(self, state):
        self.state = state


class Node:
    def __init__(self, cond, t, f):
        self.cond, self.t, self.f = cond, t, f


class Path:
    def __init__(self, conds, effects, kind, value, value_obj):
        self.conds = conds  # tuple of (atom text, polarity)
        self.effects = effects
        self.kind = kind  # 'return' | 'raise' | 'fall'
        self.value = value
        self.value_obj = value_obj

    def __repr__(self):
        c = " and ".join(("" if p else "not ") + t for t, p in self.conds) or "always"
        return f"[{c}] {self.effects} -> {self.kind} {self.value}"


def show_effects(effects) -> str:
    return "; ".join(show_effect(e) for e in effects)


def show_effect(e) -> str:
    if e[0] == "rep":
        return f"rep({e[1]}: {show_effects(e[2])})"
    if e[0] == "if":
        return f"when({e[1]}: {show_effects(e[2])} | {show_effects(e[3])})"
    if e[0] == "maybe":
        return f"maybe({show_effects(e[1])})"
    return " ".join(str(x) for x in e)


def flat_effects(effects, inside=()):
    """Yield (effect, enclosing rep/if context tuple) for every primitive effect."""
    for e in effects:
        if e[0] == "rep":
            yield from flat_effects(e[2], inside + (("rep", e[1]),))
        elif e[0] == "if":
            yield from flat_effects(e[2], inside + (("if", e[1], True),))
            yield from flat_effects(e[3], inside + (("if", e[1], False),))
        else:
            yield e, inside


class _EndWith(ast.stmt):
    _fields = ()


def _single_entry(parts):
    """(key text, value text) when the parts are exactly one dictionary entry `key: value`."""
    if len(parts) != 1 or parts[0][0] != "e" or not isinstance(parts[0][1], str):
        return None
    t, depth, quote = parts[0][1], 0, None
    for i, ch in enumerate(t):
        if quote:
            if ch == quote and t[i - 1] != "\\":
                quote = None
        elif ch in "'\"":
            quote = ch
        elif ch in "([{":
            depth += 1
        elif ch in ")]}":
            depth -= 1
        elif ch == ":" and depth == 0 and t[i:i + 2] == ": ":
            return (t[:i], t[i + 2:]) if not t.startswith("**") else None
    return None


class Summariser:
    def __init__(self, fn: ast.FunctionDef, params: dict | None = None, consts: dict | None = None, seq_names=None):
        self.consts = consts or {}
        self.fn = fn
        # parameters declared as sequences / mappings: their truthiness is a test of their length
        self.seq_names = set(seq_names) if seq_names is not None else sequence_parameters(fn)
        self.loop_id = 0
        self.params = params or {}
        self._locals = {a.arg for a in fn.args.args + fn.args.kwonlyargs} | {n.id for n in ast.walk(fn) if isinstance(n, ast.Name) and isinstance(n.ctx, ast.Store)}
        self._comp_effects: list = []
        self.depth = 0  # > 0 inside loop bodies / comprehensions: branches are merged there, forked at top level
        self.atoms = {}  # condition text -> (atoms if true, atoms if false)
        self.loop_atoms = set()  # conditions met inside a loop body that call a method of an object: evaluated anew in every iteration
        self.condterms = {}  # text of a conditional term -> (condition text, text if true, text if false)

    # ------------------------------------------------------------------ driver
    def run(self):
        env = {}
        for a in self.fn.args.args + self.fn.args.kwonlyargs:
            env[a.arg] = self.params.get(a.arg, Term(a.arg))
        for name, expr in self.consts.items():  # module-level literals the function refers to by name
            if name not in env:
                env[name] = self.ev(expr, {})
        tree = self.block(self.fn.body, State(env, []))
        paths = []

        def walk(t, conds):
            if isinstance(t, Leaf):
                s = t.state
                kind = s.term or "return"  # falling off the end returns None
                value = s.value if s.value is not None else Term("None")
                paths.append(Path(tuple(conds), s.effects, kind, text(value), value))
                return
            walk(t.t, conds + list(t.cond[0]))
            walk(t.f, conds + list(t.cond[1]))

        walk(tree, [])
        return self.finalise(paths)

    # ------------------------------------------------------------------ canonical set of paths
    _METHOD_CALL = re.compile(r"[A-Za-z0-9_\])]\.[A-Za-z_]\w*\(")

    def _per_iteration(self, c: str) -> bool:
        return _loop_var(c) or c in self.loop_atoms

    def orient(self, ct, cf):
        """Canonical orientation of a condition: (text, swapped?).  `if c: A else: B` and `if not c: B else: A` agree."""
        tt, tf = self.cond_text(ct), self.cond_text(cf)
        if self.depth > 0 and self._METHOD_CALL.search(tt):
            self.loop_atoms.update((tt, tf))  # e.g. `parser.get_token().value == ...`: another token in every iteration
        if tf < tt:
            self.atoms[tf] = (cf, ct)
            return tf, True
        self.atoms[tt] = (ct, cf)
        return tt, False

    @staticmethod
    def _member_decided(ct, cf, env):
        """`k in D` asked inside a loop over D (or its keys) that does not take elements out of D: True / False / None."""
        facts = env.get("__member__") or ()
        if len(ct) == 1 and ct[0] in facts:
            return True
        if len(cf) == 1 and cf[0] in facts:
            return False
        return None

    @staticmethod
    def _decided(ct, cf, facts):
        """True / False when the facts decide the condition, None otherwise."""
        if all(a in facts for a in ct) or any((t, not p) in facts for t, p in cf) and len(cf) == 1:
            return True
        if all(a in facts for a in cf) or any((t, not p) in facts for t, p in ct) and len(ct) == 1:
            return False
        if any((t, not p) in facts for t, p in ct):
            return False
        if any((t, not p) in facts for t, p in cf):
            return True
        return None

    def finalise(self, paths):
        out = []
        work = list(paths)
        guard = 0
        while work:
            guard += 1
            if guard > 400:
                raise Unsupported("too many conditional paths")
            p = work.pop()
            hit = self._find_conditional(p)
            if hit is None:
                out.append(p)
                continue
            ctext = hit
            ct, cf = self.atoms[ctext]
            facts = set(p.conds)
            d = self._decided(ct, cf, facts)
            if d is None:
                for branch, extra in ((True, ct), (False, cf)):
                    q = Path(tuple(sorted(set(p.conds) | set(extra))), p.effects, p.kind, p.value, p.value_obj)
                    work.append(self._specialise(q, ctext, branch))
            else:
                work.append(self._specialise(p, ctext, d))
        feasible = []
        for p in out:
            conds = _intervals(set(p.conds))
            if conds is None:
                continue  # contradictory integer constraints: the path cannot be taken
            p.conds = tuple(sorted(conds))
            self._drop_dead_loop_locals(p)
            self._renumber(p)
            self._rename_loop_locals(p)
            feasible.append(p)
        feasible.sort(key=lambda p: (p.conds, p.kind, p.value or ""))
        return feasible

    _LOOP_LOCAL = re.compile(r"(?<![A-Za-z0-9_.'\"])([A-Za-z_][A-Za-z0-9_]*)(?= ?@ ?(?:loop|after|cur|partial)\d+)")

    def _rename_loop_locals(self, p):
        """Locals that a loop carries from iteration to iteration appear in the summary under their own names
        (`token@loop1`).  The names are the programmer's; on the finished path they are replaced by `v1, v2, ...` in order of
        first appearance (effects in program order, then the value, then the conditions)."""
        order = []

        def note(t):
            for m in self._LOOP_LOCAL.finditer(t):
                if m.group(1) not in order and not re.fullmatch(r"v\d+", m.group(1)):
                    order.append(m.group(1))

        def walk(e):
            if isinstance(e, str):
                note(e)
            elif isinstance(e, (tuple, list)):
                for x in e:
                    walk(x)

        walk(tuple(p.effects))
        note(p.value or "")
        for c, _ in p.conds:
            note(c)
        if not order:
            return
        mapping = {old: f"v{i + 1}" for i, old in enumerate(order)}
        pat = re.compile(r"(?<![A-Za-z0-9_.'\"])(" + "|".join(re.escape(k) for k in sorted(mapping, key=len, reverse=True)) + r")(?= ?@ ?(?:loop|after|cur|partial|it)\d*)")

        def sub(t):
            return pat.sub(lambda m: mapping[m.group(1)], t)

        def deep(e):
            if isinstance(e, str):
                return sub(e)
            if isinstance(e, tuple):
                return tuple(deep(x) for x in e)
            if isinstance(e, list):
                return [deep(x) for x in e]
            return e

        p.effects = list(deep(tuple(p.effects)))
        p.conds = tuple(sorted((sub(c), pol) for c, pol in p.conds))
        if isinstance(p.value_obj, Seq):
            p.value_obj = Seq(p.value_obj.kind, deep(tuple(p.value_obj.parts)))
            p.value = text(p.value_obj)
        elif p.value is not None:
            p.value = sub(p.value)
            if isinstance(p.value_obj, (Term, Poly)):
                p.value_obj = Term(p.value, getattr(p.value_obj, "kind", None))

    _SET_NAME = re.compile(r"^([A-Za-z_][A-Za-z0-9_]*)@loop(\d+)$")

    def _drop_dead_loop_locals(self, p):
        """A local that a loop body assigns is reported as `set v@loopK value` because a later iteration, or the code after
        the loop, may read it.  If nothing on this path mentions `v@loopK` / `v@afterK` apart from that report - the local
        is written and read within one iteration only - the report is no behaviour: it is dropped (so that renaming or
        inlining such a local is no difference)."""
        def texts(e, skip):
            if e is skip:
                return
            if isinstance(e, str):
                yield e
            elif isinstance(e, tuple):
                for x in e:
                    yield from texts(x, skip)

        def sets(effects):
            for e in effects:
                if isinstance(e, tuple) and e and e[0] == "set" and isinstance(e[1], str) and self._SET_NAME.match(e[1]):
                    yield e
                elif isinstance(e, tuple):
                    for x in e:
                        if isinstance(x, tuple):
                            yield from sets((x,) if x and isinstance(x[0], str) else x)

        changed = True
        while changed:
            changed = False
            for st in list(sets(p.effects)):
                m = self._SET_NAME.match(st[1])
                # (texts that went through the unparser spell the marker `v @ loop1`)
                pat = re.compile(r"(?<![A-Za-z0-9_])" + re.escape(m.group(1)) + r" ?@ ?(?:loop|after)" + m.group(2) + r"(?![0-9])")
                other = list(texts(tuple(p.effects), st)) + [t for t, _ in p.conds] + [p.value or ""]
                if any(pat.search(t) for t in other):
                    continue
                # (its own new value may mention the old one - "unchanged on the other branches" - that is no reader)
                def remove(e):
                    if isinstance(e, tuple):
                        return tuple(remove(x) for x in e if x is not st)
                    return e

                p.effects = list(remove(tuple(p.effects)))
                changed = True
                break

    _LOOP_NO = re.compile(r"(?<![A-Za-z0-9_])(_[ie]|@loop|@after|@cur|@partial)(\d+)(?![0-9])")

    def _renumber(self, p):
        """Loops are numbered in the order in which the summariser met them, including loops in branches this path does
        not take (both arms of a conditional expression are evaluated).  On the finished path the numbers are made
        dense in order of first appearance, so that the same path has the same names whatever was explored beside it."""
        order = []

        def note(t):
            for m in self._LOOP_NO.finditer(t):
                if m.group(2) not in order:
                    order.append(m.group(2))

        def walk(effects):
            for e in effects:
                if e[0] == "rep":
                    note(str(e[1]))
                    walk(e[2])
                elif e[0] == "if":
                    note(str(e[1]))
                    walk(e[2])
                    walk(e[3])
                elif e[0] == "maybe":
                    walk(e[1])
                else:
                    for x in e[1:]:
                        note(str(x))

        walk(p.effects)
        note(p.value or "")
        for c, _ in p.conds:
            note(c)
        mapping = {old: str(i + 1) for i, old in enumerate(order)}
        if all(k == v for k, v in mapping.items()):
            return

        def sub(t):
            return self._LOOP_NO.sub(lambda m: m.group(1) + mapping.get(m.group(2), m.group(2)), t)

        def sub_eff(effects):
            res = []
            for e in effects:
                if e[0] == "rep":
                    res.append(("rep", sub(str(e[1])), tuple(sub_eff(e[2]))))
                elif e[0] == "if":
                    res.append(("if", sub(str(e[1])), tuple(sub_eff(e[2])), tuple(sub_eff(e[3]))))
                elif e[0] == "maybe":
                    res.append(("maybe", tuple(sub_eff(e[1]))))
                else:
                    res.append(tuple(sub(x) if isinstance(x, str) else x for x in e))
            return res

        def sub_parts(parts):
            res = []
            for part in parts:
                if part[0] == "e":
                    res.append(("e", sub(part[1])))
                elif part[0] == "rep":
                    res.append(("rep", sub(part[1]), tuple(sub_parts(part[2]))))
                elif part[0] == "if":
                    res.append(("if", sub(part[1]), tuple(sub_parts(part[2])), tuple(sub_parts(part[3]))))
                else:
                    res.append(part)
            return res

        p.effects = sub_eff(p.effects)
        p.conds = tuple(sorted((sub(c), pol) for c, pol in p.conds))
        if isinstance(p.value_obj, Seq):
            p.value_obj = Seq(p.value_obj.kind, sub_parts(p.value_obj.parts))
            p.value = text(p.value_obj)
        elif p.value is not None:
            p.value = sub(p.value)
            if isinstance(p.value_obj, (Term, Poly)):
                p.value_obj = Term(p.value, getattr(p.value_obj, "kind", None))

    def _texts(self, p):
        yield p.value or ""
        for c, _ in p.conds:  # a condition that mentions a conditional value (`x in f(A if c else B)`) depends on c as well
            yield c

        def walk(effects):
            for e in effects:
                if e[0] == "rep":
                    yield str(e[1])
                    yield from walk(e[2])
                elif e[0] == "if":
                    yield from walk(e[2])
                    yield from walk(e[3])
                else:
                    for x in e[1:]:
                        yield str(x)

        yield from walk(p.effects)

    def _find_conditional(self, p):
        """A loop-independent condition on which a value of this path still depends."""
        v = p.value_obj
        if isinstance(v, Term) and v.kind == "bool" and p.kind == "return":
            # `return a and b` is `if a and b: return True else: return False`
            base = v.text
            if base.startswith("not (") and base.endswith(")") and base[5:-1] in self.atoms:
                base = base[5:-1]
            elif base.startswith("not ") and base[4:] in self.atoms:
                base = base[4:]
            if base not in self.atoms and neg_text(base) in self.atoms:
                base = neg_text(base)  # the condition is registered in its canonical (negative) orientation
            if base in self.atoms and not self._per_iteration(base):
                return base
        if isinstance(v, Seq):
            for part in v.parts:
                if part[0] == "if" and part[1] in self.atoms and not self._per_iteration(part[1]):
                    return part[1]
        for t in self._texts(p):
            for ctxt, (c, a, b) in self.condterms.items():
                if ctxt in t and c in self.atoms and not self._per_iteration(c):
                    return c
        # conditional terms whose text changed after an inner one was decided
        for t in self._texts(p):
            if " if " not in t:
                continue
            for c in {c for c, _, _ in self.condterms.values()}:
                if c in self.atoms and not self._per_iteration(c) and _scan_condterm(t, c) is not None:
                    return c
        return None

    def _specialise(self, p, ctext, branch: bool):
        v = p.value_obj
        if isinstance(v, Term) and v.kind == "bool" and p.kind == "return" and v.text in (ctext, "not " + ctext, f"not ({ctext})", neg_text(ctext)):
            truth = branch if v.text == ctext else not branch
            p.value_obj = Term(repr(truth))
            p.value = repr(truth)
            v = p.value_obj
        if isinstance(v, Seq):
            parts = []
            for part in v.parts:
                if part[0] == "if" and part[1] == ctext:
                    parts.extend(part[2] if branch else part[3])
                else:
                    parts.append(part)
            v = Seq(v.kind, parts)
            p.value_obj = v
            p.value = text(v)

        def sub(t: str) -> str:
            for ctxt, (c, a, b) in sorted(self.condterms.items(), key=lambda kv: -len(kv[0])):
                if c == ctext and ctxt in t:
                    t = t.replace(ctxt, a if branch else b)
            # a conditional piece of a sequence that was rendered into a text: when('c', [A], [B])
            for _ in range(50):
                hit = _scan_when(t, ctext)
                if hit is None:
                    break
                start, end, a_, b_ = hit
                t = t[:start] + (a_ if branch else b_) + t[end:]
            t = _fold_len(t)
            # terms whose text changed since they were built (an inner term was decided earlier) are found by their shape
            for _ in range(50):
                hit = _scan_condterm(t, ctext)
                if hit is None:
                    break
                start, end, a, b = hit
                t = t[:start] + (a if branch else b) + t[end:]
            return t

        def sub_parts(parts):
            res = []
            for part in parts:
                if part[0] == "e":
                    res.append(("e", sub(part[1])))
                elif part[0] == "rep":
                    res.append(("rep", sub(part[1]), tuple(sub_parts(part[2]))))
                elif part[0] == "if":
                    if part[1] == ctext:
                        res.extend(sub_parts(part[2] if branch else part[3]))
                    else:
                        res.append(("if", part[1], tuple(sub_parts(part[2])), tuple(sub_parts(part[3]))))
                else:
                    res.append(part)
            return res

        if isinstance(p.value_obj, Seq):
            p.value_obj = Seq(p.value_obj.kind, sub_parts(p.value_obj.parts))
            p.value = text(p.value_obj)
        elif p.value is not None:
            before = p.value
            p.value = sub(p.value)
            if isinstance(p.value_obj, (Term, Poly)):
                kind = getattr(p.value_obj, "kind", None) if p.value == before else None
                if p.value != before and p.kind == "return" and (p.value in self.atoms or neg_text(p.value) in self.atoms or (p.value.startswith("not ") and p.value[4:] in self.atoms)):
                    kind = "bool"  # the arm that was chosen is itself a test: `return True if a else b` is `if a: return True` / `return b`
                p.value_obj = Term(p.value, kind)

        def sub_eff(effects):
            res = []
            for e in effects:
                if e[0] == "rep":
                    res.append(("rep", sub(e[1]), tuple(sub_eff(e[2]))))
                elif e[0] == "if":
                    if e[1] == ctext:
                        res.extend(sub_eff(e[2] if branch else e[3]))
                    else:
                        res.append(("if", e[1], tuple(sub_eff(e[2])), tuple(sub_eff(e[3]))))
                else:
                    res.append(tuple(sub(x) if isinstance(x, str) else x for x in e))
            return res

        p.effects = sub_eff(p.effects)
        def sub_cond(t: str) -> str:
            # a condition text went through the unparser, which drops the parentheses of a conditional expression that is a
            # call argument: both spellings are replaced, and the result is put through the unparser again
            new = t
            for ctxt, (c, a, b) in sorted(self.condterms.items(), key=lambda kv: -len(kv[0])):
                if c != ctext:
                    continue
                val = "(" + (a if branch else b) + ")"
                if ctxt in new:
                    new = new.replace(ctxt, val)
                elif ctxt.startswith("(") and ctxt.endswith(")") and ctxt[1:-1] in new:
                    new = new.replace(ctxt[1:-1], val)
            if new == t:
                return sub(t)
            try:
                return ast.unparse(ast.parse(new, mode="eval").body)
            except SyntaxError:
                return new

        p.conds = tuple(sorted({(sub_cond(c), pol) for c, pol in p.conds}))
        return p

    # ------------------------------------------------------------------ conditions
    def cond(self, test, env):
        """(atoms if true, atoms if false, display text)."""
        txt = self.canon(self._lengths(test, env), env)
        try:
            parsed = ast.parse(txt, mode="eval").body
        except SyntaxError:
            # a value the text of which is no expression (an accumulator over a loop, ...): keep the atom opaque, but read
            # the connectives the test itself is written with - `not X`, `X != k` are the atom of `X` / `X == k`, negated
            if isinstance(test, ast.UnaryOp) and isinstance(test.op, ast.Not):
                t_, f_, d_ = self.cond(test.operand, env)
                return f_, t_, txt
            if isinstance(test, ast.Compare) and len(test.ops) == 1 and isinstance(test.ops[0], ast.Eq):
                t_, f_, d_ = self.cond(ast.copy_location(ast.Compare(left=test.left, ops=[ast.NotEq()], comparators=test.comparators), test), env)
                return f_, t_, txt
            return [(txt, True)], [(txt, False)], txt
        cnd.EMPTINESS[0] = False
        try:
            return sorted(cnd.canon(parsed, True)), sorted(cnd.canon(parsed, False)), txt
        finally:
            cnd.EMPTINESS[0] = True

    @staticmethod
    def _is_bool_call(node) -> bool:
        """isinstance(...) / issubclass(...) / bool(<comparison>) - calls whose value is a truth value."""
        if not (isinstance(node, ast.Call) and isinstance(node.func, ast.Name) and not node.keywords):
            return False
        if node.func.id in ("isinstance", "issubclass", "callable", "hasattr"):
            return True
        if node.func.id == "bool" and len(node.args) == 1:
            a = node.args[0]
            if isinstance(a, ast.Attribute) and norm(a) in SEQ_TEXTS:
                return True  # bool(<list attribute>) is `len(...) > 0`
            return isinstance(a, (ast.Compare, ast.BoolOp)) or (isinstance(a, ast.UnaryOp) and isinstance(a.op, ast.Not)) or Summariser._is_bool_call(a)
        return False

    def _lengths(self, test, env):
        """`if xs:` / `if not xs:` on a sequence value is a test of its length."""
        def is_seq(n):
            if isinstance(n, ast.Attribute):
                return norm(n) in SEQ_TEXTS or norm(n) in self.seq_names  # an attribute that only ever holds lists / dicts / texts (model.Repo.seq_texts / class_seq_attrs)
            if not isinstance(n, ast.Name):
                return False
            v = env.get(n.id)
            if isinstance(v, Seq) or (n.id in self.seq_names and (v is None or (isinstance(v, Term) and v.text == n.id))):
                return True
            return isinstance(v, Term) and v.text in self.seq_names  # a local that stands for such a parameter

        def as_len(n):
            return ast.Compare(left=ast.Call(func=ast.Name(id="len", ctx=ast.Load()), args=[n], keywords=[]), ops=[ast.GtE()], comparators=[ast.Constant(value=1)])

        if is_seq(test):
            return as_len(test)
        if isinstance(test, ast.Call) and isinstance(test.func, ast.Name) and test.func.id == "bool" and len(test.args) == 1 and not test.keywords and is_seq(test.args[0]):
            return as_len(test.args[0])
        if isinstance(test, ast.UnaryOp) and isinstance(test.op, ast.Not):
            return ast.UnaryOp(op=ast.Not(), operand=self._lengths(test.operand, env))
        if isinstance(test, ast.BoolOp):
            return ast.BoolOp(op=test.op, values=[self._lengths(v, env) for v in test.values])
        return test

    @staticmethod
    def cond_text(atoms) -> str:
        return " and ".join(("" if p else "not ") + t for t, p in atoms)

    # ------------------------------------------------------------------ blocks
    def block(self, stmts, state):
        """Evaluate statements; returns a tree of states."""
        for i, st in enumerate(stmts):
            if isinstance(st, ast.If):
                self.record_calls(st.test, state)
                ct, cf, _ = self.cond(st.test, state.env)
                known = self._member_decided(ct, cf, state.env)
                if known is not None:  # `k in D` inside `for k in D`: one arm only
                    return self.block(list(st.body if known else st.orelse) + list(stmts[i + 1:]), state)
                tt = self.block(st.body, state.fork())
                ft = self.block(st.orelse, state.fork()) if st.orelse else Leaf(state.fork())
                rest = stmts[i + 1:]
                if self.depth > 0 and self._all_live(tt) and self._all_live(ft):
                    merged = self.merge((ct, cf), self.collapse(tt), self.collapse(ft))
                    return self.block(rest, merged)
                # some path ended: continue every live leaf separately
                return Node((ct, cf), self._continue(tt, rest), self._continue(ft, rest))
            if isinstance(st, ast.With):
                # the body runs in place; entering the context is an effect (a lock taken, a file opened)
                for item in st.items:
                    state.effects.append(("with", self.canon(item.context_expr, state.env)))
                    if item.optional_vars is not None:
                        self.assign(item.optional_vars, Term(self.canon(item.context_expr, state.env) + ".__enter__()"), state)
                return self.block(list(st.body) + [_EndWith()] + list(stmts[i + 1:]), state)
            if isinstance(st, _EndWith):
                state.effects.append(("endwith",))
                continue
            if isinstance(st, ast.Try) and self.depth == 0:
                return self._try(st, stmts[i + 1:], state)
            if st.__class__.__name__ == "InlineBlock":
                # body of an inlined helper (sa.inline): part of this statement list unless it leaves early
                if any(x.__class__.__name__ == "LeaveBlock" for x in ast.walk(st)):
                    if self.depth > 0:
                        raise Unsupported("inlined helper with early exits inside a loop")
                    inner = self.block(list(st.body), state)
                    return self._resume(inner, stmts[i + 1:])
                return self.block(list(st.body) + list(stmts[i + 1:]), state)
            state = self.stmt(st, state)
            if state.term is not None:
                return Leaf(state)
        return Leaf(state)

    def _try(self, st, rest, state):
        """try/except/else/finally at top level: the protected body either completes (then `else`, `finally`, the rest) or
        an exception of one of the handled types interrupts it somewhere (the handler then starts from a state in which
        everything the body assigns is unknown and a prefix of the body's effects may have happened)."""
        k = state.env.get("__t__", 0) + 1  # numbered along the path, like loops
        state.env["__t__"] = k
        final = list(st.finalbody)
        ok_cont = list(st.orelse) + final + list(rest)
        body_tree = self.block(list(st.body), state.fork())
        body_tree = self._after_try(body_tree, ok_cont, final)
        tree = body_tree
        assigned = {n.id for x in st.body for n in ast.walk(x) if isinstance(n, ast.Name) and isinstance(n.ctx, ast.Store)}
        probe = State(dict(state.env), [])
        try:
            partial = self.collapse(self.block(list(st.body), probe), loop_body=True).effects
        except Unsupported:
            partial = [("unknown",)]
        for h in reversed(st.handlers):
            hs = state.fork()
            for v in assigned:
                if v in hs.env:
                    hs.env[v] = Term(f"{v}@try{k}", getattr(hs.env[v], "kind", None))
            for key in [x for x in hs.env if x.startswith("@")]:
                hs.env.pop(key)
            if partial:
                hs.effects.append(("maybe", tuple(partial)))
            if h.name:
                hs.env[h.name] = Term(f"exc{k}")
            typ = self.canon(h.type, state.env) if h.type is not None else "BaseException"
            htree = self.block(list(h.body) + final + list(rest), hs)
            atom = f"raised({typ}) in try{k}"
            tree = Node(([(atom, False)], [(atom, True)]), tree, htree)
        return tree

    def _after_try(self, tree, cont, final):
        if isinstance(tree, Leaf):
            if tree.state.term is None:
                return self.block(cont, tree.state)
            if final and tree.state.term in ("return", "raise"):
                # finally runs before the pending return / raise
                term, value = tree.state.term, tree.state.value
                tree.state.term, tree.state.value = None, None
                ft = self.block(list(final), tree.state)
                if isinstance(ft, Leaf) and ft.state.term is None:
                    ft.state.term, ft.state.value = term, value
                    return ft
                raise Unsupported("finally block that branches or exits")
            return tree
        return Node(tree.cond, self._after_try(tree.t, cont, final), self._after_try(tree.f, cont, final))

    def _resume(self, tree, rest):
        """Continue after an inlined helper: paths that left the helper (LeaveBlock) or fell off its end go on."""
        if isinstance(tree, Leaf):
            if tree.state.term == "leave" and isinstance(tree.state.value, int) and tree.state.value > 1:
                tree.state.value -= 1  # leaves the enclosing helper as well
                return tree
            if tree.state.term in (None, "leave"):
                tree.state.term = None
                tree.state.value = None
                return self.block(rest, tree.state)
            return tree
        return Node(tree.cond, self._resume(tree.t, rest), self._resume(tree.f, rest))

    def _all_live(self, tree) -> bool:
        if isinstance(tree, Leaf):
            return tree.state.term is None
        return self._all_live(tree.t) and self._all_live(tree.f)

    def _continue(self, tree, rest):
        if isinstance(tree, Leaf):
            if tree.state.term is not None:
                return tree
            return self.block(rest, tree.state)
        return Node(tree.cond, self._continue(tree.t, rest), self._continue(tree.f, rest))

    def collapse(self, tree, loop_body=False) -> State:
        """Merge all leaves of a tree into one state (raising leaves become conditional raise effects)."""
        if isinstance(tree, Leaf):
            s = tree.state
            if s.term == "raise":
                d = State(dict(s.env), s.effects + [("raise", s.value.text if isinstance(s.value, Term) else text(s.value))])
                d.term = "dead"
                return d
            if s.term == "return":
                if not loop_body:
                    raise Unsupported("internal: collapse of a returning path")
                d = State(dict(s.env), s.effects + [("return", text(s.value) if s.value is not None else "None")])
                d.term = "dead"
                return d
            if s.term == "continue":
                return State(dict(s.env), list(s.effects))
            if s.term == "leave":
                raise Unsupported("an inlined helper returns from inside a loop into the middle of its caller")
            return s
        a, b = self.collapse(tree.t, loop_body), self.collapse(tree.f, loop_body)
        return self.merge(tree.cond, a, b)

    def mk_if(self, ct, cf, a, b, boolean_parts=False):
        """Canonical conditional node ('if', text, a, b) for effects and sequence parts: nested single-armed ifs are
        flattened into one conjunction, the orientation is the canonical one."""
        a, b = tuple(a), tuple(b)

        def single_armed(x):
            """(atoms of the inner condition, inner body) when x is exactly one `if c: body` without else."""
            if len(x) == 1 and x[0][0] == "if" and x[0][1] in self.atoms:
                ict, icf = self.atoms[x[0][1]]
                if not x[0][3]:
                    return ict, x[0][2]
                if not x[0][2]:
                    return icf, x[0][3]
            return None

        if not b and single_armed(a) is not None:
            inner, body = single_armed(a)
            both = sorted(set(ct) | set(inner))
            return self.mk_if(both, [("ALL[" + cnd._signed(both) + "]", False)], body, ())
        if not a and single_armed(b) is not None:
            inner, body = single_armed(b)
            both = sorted(set(cf) | set(inner))
            return self.mk_if(both, [("ALL[" + cnd._signed(both) + "]", False)], body, ())
        ctext, swapped = self.orient(ct, cf)
        if swapped:
            a, b = b, a
        if boolean_parts:
            part = _if_part(ctext, a, b)
            if part[0] == "if" and self.depth == 0:
                # a top-level choice between two element lists: splittable by finalise() wherever its text occurs
                self.condterms[show_part(part)] = (ctext, ", ".join(show_part(x) for x in a), ", ".join(show_part(x) for x in b))
            return part
        return ("if", ctext, a, b)

    def merge(self, cpair, a: State, b: State) -> State:
        ct, cf = cpair
        k = 0
        while k < len(a.effects) and k < len(b.effects) and a.effects[k] == b.effects[k]:
            k += 1
        effects = list(a.effects[:k])
        ra, rb = a.effects[k:], b.effects[k:]
        if ra or rb:
            effects.append(self.mk_if(ct, cf, ra, rb))
        ctext, swapped = self.orient(ct, cf)
        if swapped:
            a, b = b, a
            ct, cf = cf, ct
        if a.term == "dead" and b.term == "dead":
            s = State(dict(a.env), effects)
            s.term = "dead"
            return s
        if a.term == "dead":
            return State(dict(b.env), effects)
        if b.term == "dead":
            return State(dict(a.env), effects)
        env = {}
        for name in set(a.env) | set(b.env):
            va, vb = a.env.get(name), b.env.get(name)
            if name in ("__k__", "__t__"):
                env[name] = max(va or 0, vb or 0)
                continue
            if name == "__loops__":
                env[name] = va if len(va or ()) >= len(vb or ()) else vb
                continue
            if va is None or vb is None:
                env[name] = Term(f"{name}@maybe")
            elif text(va) == text(vb) and type(va) is type(vb):
                env[name] = va
            elif (isinstance(va, Seq) or isinstance(vb, Seq)) and _as_seq(va) is not None and _as_seq(vb) is not None and _as_seq(va).kind == _as_seq(vb).kind:
                va, vb = _as_seq(va), _as_seq(vb)
                j = 0
                while j < len(va.parts) and j < len(vb.parts) and va.parts[j] == vb.parts[j]:
                    j += 1
                ea, eb = _single_entry(va.parts[j:]), _single_entry(vb.parts[j:])
                if va.kind == "dict" and ea is not None and eb is not None and ea[1] == eb[1]:
                    # the same value filed under a key chosen by the test: one entry with a conditional key
                    env[name] = Seq("dict", va.parts[:j] + (("e", f"{self.cond_term(ctext, Term(ea[0]), Term(eb[0])).text}: {ea[1]}"),))
                    continue
                env[name] = Seq(va.kind, va.parts[:j] + (self.mk_if(ct, cf, va.parts[j:], vb.parts[j:], boolean_parts=True),))
            else:
                kind = getattr(va, "kind", None) if getattr(va, "kind", None) == getattr(vb, "kind", None) else None
                env[name] = self.cond_term(ctext, va, vb, kind)
        return State(env, effects)

    def _flatten_choice(self, ctext, ta, tb):
        """A choice nested in a choice, one of whose values is the other arm of the outer choice, is one choice under a
        conjunction: ((A if c2 else X) if c1 else X) = (A if c1 and c2 else X), (X if c1 else (A if c2 else X)) =
        (A if not c1 and c2 else X), ...  The conjunction is spelt and oriented like a test written as a conjunction."""
        if ctext not in self.atoms:
            return None
        oct_, ocf = self.atoms[ctext]
        for outer, inner_text, other in ((oct_, ta, tb), (ocf, tb, ta)):
            inner = self.condterms.get(inner_text)
            if inner is None or inner[0] not in self.atoms:
                continue
            ict, icf = self.atoms[inner[0]]
            for side, special, rest in ((ict, inner[1], inner[2]), (icf, inner[2], inner[1])):
                if rest != other or special == other:
                    continue
                if any(t.startswith("ALL[") for t, _ in list(outer) + list(side)):
                    continue
                both = sorted(set(outer) | set(side))
                if any((t, not p) in both for t, p in both):
                    continue
                text_, swapped = self.orient(both, [("ALL[" + cnd._signed(both) + "]", False)])
                return (text_, other, special) if swapped else (text_, special, other)
        return None

    _BIN_SYM = {ast.BitOr: "|", ast.BitAnd: "&", ast.BitXor: "^", ast.Add: "+", ast.Sub: "-", ast.Mult: "*", ast.LShift: "<<", ast.RShift: ">>"}

    def _hoist_common_operand(self, ctext, ta, tb, kind):
        """`(X op A) if c else (X op B)` with the same plain reference X on the left is `X op (A if c else B)`."""
        if not (ta.startswith("(") and tb.startswith("(")):
            return None
        try:
            pa, pb = ast.parse(ta, mode="eval").body, ast.parse(tb, mode="eval").body
        except SyntaxError:
            return None
        if not (isinstance(pa, ast.BinOp) and isinstance(pb, ast.BinOp) and type(pa.op) is type(pb.op) and type(pa.op) in self._BIN_SYM and ast.dump(pa.left) == ast.dump(pb.left)):
            return None
        if any(isinstance(n, (ast.Call, ast.IfExp)) for n in ast.walk(pa.left)):
            return None
        inner = self.cond_term(ctext, Term(ast.unparse(pa.right)), Term(ast.unparse(pb.right)))
        return Term(f"({ast.unparse(pa.left)} {self._BIN_SYM[type(pa.op)]} {atom_text(inner)})", kind)

    def cond_term(self, ctext, va, vb, kind=None):
        if text(va) == "True" and text(vb) == "False":
            return Term(ctext)
        if text(va) == "False" and text(vb) == "True":
            return Term(neg_text(ctext))
        flat = self._flatten_choice(ctext, atom_text(va), atom_text(vb))
        if flat is not None:
            c, x, y = flat
            return self.cond_term(c, Term(x, kind), Term(y, kind), kind)
        hoisted = self._hoist_common_operand(ctext, atom_text(va), atom_text(vb), kind)
        if hoisted is not None:
            return hoisted
        t = f"({atom_text(va)} if {ctext} else {atom_text(vb)})"
        self.condterms[t] = (ctext, atom_text(va), atom_text(vb))
        return Term(t, kind)

    # ------------------------------------------------------------------ statements
    PURE_NAMES = {"len", "int", "str", "bytes", "bytearray", "float", "bool", "list", "dict", "tuple", "set", "frozenset", "sorted", "reversed", "enumerate", "zip", "range", "min", "max", "sum",
                  "abs", "isinstance", "issubclass", "hasattr", "getattr", "callable", "type", "id", "repr", "hex", "oct", "bin", "ord", "chr", "format", "any", "all", "iter", "map", "filter", "super"}
    PURE_ATTRS = {"join", "format", "encode", "decode", "strip", "lstrip", "rstrip", "split", "upper", "lower", "startswith", "endswith", "replace", "get", "keys", "values", "items", "copy", "index", "count",
                  "pack", "unpack", "unpack_from", "calcsize", "bit_length", "to_bytes", "from_bytes", "is_alive", "isdigit", "isalpha", "isupper", "islower", "clone", "exception"}

    def _impure(self, call: ast.Call) -> bool:
        """May this call change or depend on state a rule cares about?  Methods of `self`/`cls`, of parameters and of local
        objects, and calls of callables held in parameters/locals.  Module-level functions, class-qualified calls and
        constructors are value computations: their text is part of whatever uses the value."""
        f = call.func
        local = self._locals
        if isinstance(f, ast.Name):
            return f.id in local and f.id not in self.PURE_NAMES
        if isinstance(f, ast.Attribute):
            if f.attr in ("append", "extend") and isinstance(f.value, ast.Name):
                return False  # accumulators are modelled as values
            if f.attr in self.PURE_ATTRS or f.attr[:1].isupper():
                return False
            root = f.value
            while isinstance(root, (ast.Attribute, ast.Subscript, ast.Call)):
                root = root.func if isinstance(root, ast.Call) else root.value
            return isinstance(root, ast.Name) and (root.id in ("self", "cls") or root.id in local)
        return True  # the result of a call is called: self.stream_function(5, 4)(result) and the like

    def record_calls(self, expr, state, skip=None):
        """Every call with a possible effect that the expression makes, in evaluation order, becomes an effect of the path
        (whether its value is used in a condition, an assignment or thrown away does not matter for what it does)."""
        if expr is None:
            return

        def rec(n, sink):
            if isinstance(n, (ast.Lambda, ast.ListComp, ast.GeneratorExp, ast.DictComp, ast.SetComp)):
                return
            if isinstance(n, ast.BoolOp):
                # `a and b`: what b calls happens only if a was true (`or`: only if a was false) - like a nested if
                rec(n.values[0], sink)
                for i in range(1, len(n.values)):
                    inner: list = []
                    rec(n.values[i], inner)
                    if inner:
                        prefix = ast.BoolOp(op=n.op, values=n.values[:i]) if i > 1 else n.values[0]
                        ct, cf, _ = self.cond(prefix, state.env)
                        if isinstance(n.op, ast.And):
                            sink.append(self.mk_if(ct, cf, inner, ()))
                        else:
                            sink.append(self.mk_if(ct, cf, (), inner))
                return
            if isinstance(n, ast.IfExp):
                rec(n.test, sink)
                a_, b_ = [], []
                rec(n.body, a_)
                rec(n.orelse, b_)
                if a_ or b_:
                    ct, cf, _ = self.cond(n.test, state.env)
                    sink.append(self.mk_if(ct, cf, a_, b_))
                return
            for ch in ast.iter_child_nodes(n):
                rec(ch, sink)
            if isinstance(n, ast.Call) and n is not skip and self._impure(n):
                try:
                    sink.append(("call", self.canon(n, state.env)))
                except Unsupported:
                    sink.append(("call", norm(n)))

        rec(expr, state.effects)

    def stmt(self, st, state) -> State:
        env = state.env
        if isinstance(st, (ast.Assign, ast.AnnAssign, ast.AugAssign, ast.Return)):
            self.record_calls(getattr(st, "value", None), state)
        elif isinstance(st, ast.Raise):
            self.record_calls(st.exc, state)
        if isinstance(st, ast.Expr):
            if isinstance(st.value, ast.Constant):
                return state
            if isinstance(st.value, ast.Call):
                self.record_calls(st.value, state, skip=st.value)
                c = st.value
                f = c.func
                if isinstance(f, ast.Attribute) and isinstance(f.value, ast.Name) and isinstance(env.get(f.value.id), Seq) and f.attr in ("append", "extend") and len(c.args) == 1:
                    seq = env[f.value.id]
                    if f.attr == "append" and isinstance(c.args[0], ast.IfExp):
                        # append(A if c else B) is `if c: append(A) else: append(B)`
                        ie = c.args[0]
                        ct, cf, _ = self.cond(ie.test, env)
                        known = self._member_decided(ct, cf, env)
                        if known is not None:
                            env[f.value.id] = Seq(seq.kind, seq.parts + (("e", text(self.ev(ie.body if known else ie.orelse, env))),))
                            return state
                        part = self.mk_if(ct, cf, (("e", text(self.ev(ie.body, env))),), (("e", text(self.ev(ie.orelse, env))),), boolean_parts=True)
                        env[f.value.id] = Seq(seq.kind, seq.parts + (part,))
                        return state
                    v = self.ev(c.args[0], env)
                    if f.attr == "append" and isinstance(v, Term) and v.text in self.condterms and self.condterms[v.text][0] in self.atoms:
                        # a local that was given A on one branch and B on the other, appended after the join: the same
                        ctext_, ta_, tb_ = self.condterms[v.text]
                        ct_, cf_ = self.atoms[ctext_]
                        part = self.mk_if(ct_, cf_, (("e", ta_),), (("e", tb_),), boolean_parts=True)
                        env[f.value.id] = Seq(seq.kind, seq.parts + (part,))
                        return state
                    if f.attr == "append":
                        env[f.value.id] = Seq(seq.kind, seq.parts + (("e", text(v)),))
                    elif isinstance(v, Seq):
                        env[f.value.id] = Seq(seq.kind, seq.parts + v.parts)
                    else:
                        env[f.value.id] = Seq(seq.kind, seq.parts + (("e", "*" + text(v)),))
                    return state
                state.effects.append(("call", self.canon(c, env)))
                return state
            state.effects.append(("expr", self.canon(st.value, env)))
            return state
        if isinstance(st, ast.Assign):
            v = self.ev(st.value, env)
            self._drain(state)
            for t in st.targets:
                self.assign(t, v, state)
            return state
        if isinstance(st, ast.AnnAssign):
            if st.value is not None:
                self.assign(st.target, self.ev(st.value, env), state)
            return state
        if isinstance(st, ast.AugAssign):
            cur = self.ev(st.target, env) if isinstance(st.target, ast.Name) else Term(self.canon(st.target, env))
            v = self.binop(st.op, cur, self.ev(st.value, env))
            self.assign(st.target, v, state)
            return state
        if isinstance(st, ast.Return):
            state.term = "return"
            state.value = self.ev(st.value, env) if st.value is not None else Term("None")
            self._drain(state)
            return state
        if isinstance(st, ast.Raise):
            state.term = "raise"
            exc = st.exc
            # the exception constructor; when a local object builds it (`token.exception(...)`) the object only contributes the
            # source location of the message, so the local's name (or which of several locals) is not part of the refusal
            f = exc.func if isinstance(exc, ast.Call) else exc
            if isinstance(f, ast.Attribute) and isinstance(f.value, ast.Name) and f.value.id in self._locals and f.value.id not in ("self", "cls"):
                name = f"<local>.{f.attr}"
            else:
                name = norm(f) if f is not None else "re-raise"
            state.value = Term(name)
            return state
        if isinstance(st, ast.Pass):
            return state
        if isinstance(st, ast.Continue):
            state.term = "continue"
            return state
        if st.__class__.__name__ == "LeaveBlock":
            state.term = "leave"
            state.value = getattr(st, "levels", 1)  # how many inlined helpers are left
            return state
        if isinstance(st, (ast.For, ast.While)):
            return self.loop(st, state)
        if isinstance(st, ast.With):
            tree = self.block(st.body, state)
            if isinstance(tree, Leaf):
                return tree.state
            raise Unsupported("branching return inside a with block")
        if isinstance(st, (ast.Import, ast.ImportFrom, ast.Assert, ast.Delete)):
            if isinstance(st, ast.Delete):
                for t in st.targets:
                    state.effects.append(("del", self.canon(t, env)))
            return state
        if st.__class__.__name__ == "InlineBlock":
            tree = self.block(st.body, state)
            if isinstance(tree, Leaf) and tree.state.term in (None,):
                return tree.state
            raise Unsupported("inlined helper with early exits")
        if isinstance(st, ast.FunctionDef) and not st.decorator_list:
            # a local function is a value bound to its name (its body is summarised on its own, see refmodels nested targets)
            body = [x for x in st.body if not (isinstance(x, ast.Expr) and isinstance(x.value, ast.Constant) and isinstance(x.value.value, str))]
            if len(body) == 1 and isinstance(body[0], ast.Return) and body[0].value is not None:
                # `def f(): return E` is `f = lambda: E`
                lam = ast.Lambda(args=st.args, body=body[0].value)
                for a in lam.args.args + lam.args.kwonlyargs:
                    a.annotation = None
                env[st.name] = Term(self.canon(ast.fix_missing_locations(ast.copy_location(lam, st)), env))
            else:
                env[st.name] = Term(f"<def {st.name}>")
            return state
        raise Unsupported(f"statement {type(st).__name__} at line {getattr(st, 'lineno', '?')}")

    def _drain(self, state):
        if self._comp_effects:
            state.effects.extend(self._comp_effects)
            self._comp_effects = []

    def assign(self, target, v, state):
        env = state.env
        if isinstance(target, ast.Name):
            env[target.id] = v
        elif isinstance(target, (ast.Tuple, ast.List)):
            if isinstance(v, Tup) and len(v.items) == len(target.elts):
                for t, x in zip(target.elts, v.items):
                    self.assign(t, x, state)
            else:
                base = atom_text(v)
                for k, t in enumerate(target.elts):
                    self.assign(t, Term(f"{base}[{k}]"), state)
        elif isinstance(target, ast.Subscript) and isinstance(target.value, ast.Name) and isinstance(env.get(target.value.id), Seq) and env[target.value.id].kind == "dict" and not isinstance(target.slice, ast.Slice):
            d = env[target.value.id]
            env[target.value.id] = Seq("dict", d.parts + (("e", f"{self._c(target.slice, env)}: {text(v)}"),))
        else:
            # the target names a place, not a value: an attribute whose stored scalar is known is still that attribute
            key = f"{self._c(target.value, env)}.{target.attr}" if isinstance(target, ast.Attribute) else self.canon(target, env)
            state.effects.append(("store", key, text(v)))
            if isinstance(target, ast.Attribute) and isinstance(v, (Poly, Term)):
                env["@" + key] = v  # a later read of the attribute on this path sees the stored scalar

    # ------------------------------------------------------------------ loops
    def loop(self, st, state) -> State:
        env = state.env
        k = env.get("__k__", 0) + 1  # loops are numbered along the path, not in exploration order
        env["__k__"] = k
        idx = Poly.sym(f"_i{k}")
        bind = {}
        count = None
        if isinstance(st, ast.For):
            if st.orelse:
                raise Unsupported("for/else")
            it = st.iter
            if isinstance(it, ast.Name) and isinstance(env.get(it.id), Term) and env[it.id].kind is None:
                # the iterable was computed before (`entries = value.values()`): iterate what the name stands for
                try:
                    parsed = ast.parse(env[it.id].text, mode="eval").body
                    if isinstance(parsed, ast.Call) and isinstance(parsed.func, ast.Attribute) and parsed.func.attr in ("values", "items", "keys") and not parsed.args:
                        it = parsed
                        env = dict(env)
                        for nm in [x.id for x in ast.walk(parsed) if isinstance(x, ast.Name)]:
                            env.pop(nm, None)  # the text is already canonical: its names stand for themselves
                except SyntaxError:
                    pass
            if isinstance(it, ast.Call) and isinstance(it.func, ast.Name) and it.func.id == "range" and not it.keywords and 1 <= len(it.args) <= 3:
                args = [self.poly(a, env) for a in it.args]
                start = args[0] if len(args) > 1 else Poly.const(0)
                stop = args[1] if len(args) > 1 else args[0]
                step = args[2] if len(args) > 2 else Poly.const(1)
                if step == Poly.const(1):
                    count = stop - start
                    header = f"times({count})"  # counted loop: the spelling of the range does not matter
                else:
                    count = Poly.sym(f"count({start}, {stop}, {step})")
                    header = "range(" + ", ".join(str(a) for a in args) + ")"
                loopval = start + idx * step
                if not isinstance(st.target, ast.Name):
                    raise Unsupported("range loop with a tuple target")
                bind[st.target.id] = loopval
            elif isinstance(it, ast.Call) and isinstance(it.func, ast.Name) and it.func.id == "enumerate" and isinstance(st.target, ast.Tuple) and len(st.target.elts) == 2 and all(isinstance(e, ast.Name) for e in st.target.elts):
                base = self.canon(it.args[0], env)
                start_kw = next((k.value for k in it.keywords if k.arg == "start"), None)
                off = self.poly(it.args[1], env) if len(it.args) > 1 else (self.poly(start_kw, env) if start_kw is not None else Poly.const(0))
                header = f"each({base})"
                count = Poly.sym(f"len({base})")
                inner = self.ev(it.args[0], env)
                bind[st.target.elts[0].id] = off + idx
                bind[st.target.elts[1].id] = self._element(inner, base, k)
            else:
                # dictionary views: `for v in d.values()` is `for k in d` with v = d[k]
                view = it.func.attr if isinstance(it, ast.Call) and isinstance(it.func, ast.Attribute) and it.func.attr in ("values", "items", "keys") and not it.args and not it.keywords else None
                if isinstance(it, ast.Call) and isinstance(it.func, ast.Name) and it.func.id == "list" and len(it.args) == 1 and not it.keywords:
                    it = it.args[0]  # iterating a snapshot visits the same elements in the same order
                    view = it.func.attr if isinstance(it, ast.Call) and isinstance(it.func, ast.Attribute) and it.func.attr in ("values", "items", "keys") and not it.args and not it.keywords else None
                base = self.canon(it.func.value if view else it, env)
                header = f"each({base})"
                count = Poly.sym(f"len({base})")
                inner = self.ev(it, env) if not view else Term(base)
                elem = self._element(inner, base, k)
                if view == "values":
                    elem = Term(f"{base}[{elem.text}]")
                elif view == "items":
                    elem = Tup([elem, Term(f"{base}[{elem.text}]")])
                if isinstance(elem, Tup):
                    if isinstance(st.target, ast.Tuple) and len(st.target.elts) == 2 and all(isinstance(e, ast.Name) for e in st.target.elts):
                        bind[st.target.elts[0].id], bind[st.target.elts[1].id] = elem.items
                    else:
                        raise Unsupported("items() loop target")
                elif isinstance(st.target, ast.Name):
                    bind[st.target.id] = elem
                    removes = any((isinstance(n, ast.Delete) or (isinstance(n, ast.Call) and isinstance(n.func, ast.Attribute) and n.func.attr in ("pop", "popitem", "clear", "remove", "discard"))) and base in norm(n) for s_ in st.body for n in ast.walk(s_))
                    if view in (None, "keys") and isinstance(elem, Term) and not removes:
                        bind["__member__"] = frozenset(env.get("__member__") or ()) | {(f"{elem.text} in {base}", True)}
                elif isinstance(st.target, ast.Tuple) and all(isinstance(e, ast.Name) for e in st.target.elts):
                    for j, e in enumerate(st.target.elts):
                        bind[e.id] = Term(f"{elem.text}[{j}]")
                else:
                    raise Unsupported("loop target")
            test = None
        else:
            if st.orelse:
                raise Unsupported("while/else")
            header = None
            test = st.test
            count = Poly.sym(f"_n{k}")
        body = st.body
        assigned = set()
        for n in ast.walk(ast.Module(body=body, type_ignores=[])):
            if isinstance(n, ast.Name) and isinstance(n.ctx, ast.Store):
                assigned.add(n.id)
            if isinstance(n, ast.Call) and isinstance(n.func, ast.Attribute) and n.func.attr in ("append", "extend") and isinstance(n.func.value, ast.Name):
                assigned.add(n.func.value.id)
            if isinstance(n, ast.Subscript) and isinstance(n.ctx, ast.Store) and isinstance(n.value, ast.Name):
                assigned.add(n.value.id)
            if isinstance(n, (ast.Break, ast.Yield, ast.YieldFrom, ast.Try)):
                raise Unsupported(f"{type(n).__name__} inside a loop")
        for n in ast.walk(ast.Module(body=body, type_ignores=[])):
            if isinstance(n, ast.Attribute) and isinstance(n.ctx, ast.Store):
                env.pop("@" + norm(n), None)  # an attribute the loop writes is no longer known by value
        carried = [v for v in sorted(assigned) if v in env and v not in bind]
        for v in carried:  # a byte string / text that the loop extends is an accumulator
            if isinstance(env[v], Term) and env[v].kind in ("bytes", "str"):
                env[v] = Seq(env[v].kind, (("e", env[v].text),) if env[v].text not in ("''", "b''") else ())

        def marker(v):
            cur = env[v]
            if isinstance(cur, Seq):
                return Seq(cur.kind, (("acc", v),))
            if isinstance(cur, Poly) or (isinstance(cur, Term) and cur.kind != "bytes"):
                return Poly.sym(f"{v}@it")
            return Term(f"{v}@it", getattr(cur, "kind", None))

        def run_body(start_env):
            s = State(start_env, [])
            self.depth += 1
            try:
                tree = self.block(body, s)
                return self.collapse(tree, loop_body=True)  # merging the branches of the body is still "inside the loop"
            finally:
                self.depth -= 1

        # pass 1: per-iteration deltas
        env1 = dict(env)
        for v in carried:
            env1[v] = marker(v)
        env1.update(bind)
        m1 = run_body(env1)
        induction, accs, opaque, threaded, sums = {}, [], [], {}, {}
        local = lambda s: "@it" in s or s == f"_i{k}" or s.startswith(f"_e{k}")  # noqa: E731
        for v in carried:
            after = m1.env.get(v)
            mk = marker(v)
            if isinstance(mk, Poly):
                if isinstance(after, Poly):
                    delta = after - mk
                    if not delta.mentions(local):
                        induction[v] = delta
                        continue
                    if delta == Poly.sym(f"_e{k}") and header and header.startswith("each("):
                        sums[v] = header[5:-1]  # total += element: the sum of the iterable
                        continue
                    # the new value is computed from the old one by a call (cursor threaded through a child's decode)
                    if len(after.t) == 1 and list(after.t.values()) == [1] and len(list(after.t)[0]) == 1 and list(after.t)[0][0].count(f"{v}@it") == 1:
                        threaded[v] = list(after.t)[0][0]
                        continue
                elif isinstance(after, Term) and after.text.count(f"{v}@it") == 1:
                    threaded[v] = after.text
                    continue
                opaque.append(v)
            elif isinstance(mk, Seq):
                if isinstance(after, Seq) and after.parts[:1] == (("acc", v),):
                    accs.append(v)
                else:
                    opaque.append(v)
            else:
                if after == mk:
                    continue
                opaque.append(v)
        # pass 2: closed forms
        env2 = dict(env)
        for v, d in induction.items():
            env2[v] = self.as_poly(env[v]) + idx * d
        for v in accs:
            env2[v] = Seq(env[v].kind, (("acc", v),))
        for v in opaque:
            env2[v] = Term(f"{v}@loop{k}", getattr(env[v], "kind", None))
        for v in threaded:
            env2[v] = Poly.sym(f"{v}@cur{k}")
        for v in sums:
            env2[v] = Poly.sym(f"{v}@partial{k}")
        env2.update(bind)
        if test is not None:
            ct, _, _ = self.cond(test, env2)
            header = "loop(" + repr(self.cond_text(ct)) + ")"
            solved = self._solve_count(test, env2, k)
            if solved is not None:
                count = solved
                header = f"times({count})"
        m2 = run_body(env2)
        for v in opaque:
            # a variable the loop updates by some other rule: the rule itself is part of the summary (value at the start of
            # an iteration is `v@loopK`, the value after the loop `v@afterK` is what the last iteration left)
            if v in m2.env and text(m2.env[v]) != f"{v}@loop{k}":
                m2.effects.append(("set", f"{v}@loop{k}", text(m2.env[v])))
        out = dict(env)
        for v, d in induction.items():
            out[v] = self.as_poly(env[v]) + count * d
        for v in accs:
            appended = m2.env[v].parts[1:]
            out[v] = Seq(env[v].kind, env[v].parts + ((("rep", header, appended),) if appended else ()))
        for v in opaque:
            out[v] = Term(f"{v}@after{k}", getattr(env[v], "kind", None))
        for v, it_text in sums.items():
            out[v] = self.as_poly(env[v]) + Poly.sym(f"sum({it_text})")
        for v, step in threaded.items():
            out[v] = Poly.sym(f"thread({header}: {step.replace(v + '@it', '<cur>')}; from {atom_text(env[v])})")
        for v in assigned:
            if v not in env and v not in bind:
                out[v] = Term(f"{v}@after{k}")
        effects = list(state.effects)
        # inside the loop an accumulator is `what it held before the loop + what the iterations so far appended`
        grammar = {}
        for v in accs:
            appended = m2.env[v].parts[1:]
            parts = env[v].parts + ((("rep", "so far " + header, appended),) if appended else ())
            grammar[f"<{v}>"] = ", ".join(show_part(x) for x in parts)

        def spell(e):
            if isinstance(e, tuple):
                return tuple(spell(x) for x in e)
            if isinstance(e, str):
                for mark, full in grammar.items():
                    if mark in e:
                        e = e.replace(mark, full)
            return e

        if m2.effects:
            effects.append(("rep", header, tuple(spell(x) for x in m2.effects) if grammar else tuple(m2.effects)))
        res = State(out, effects)
        res.env["__loops__"] = env.get("__loops__", ()) + ((k, header, text(count)),)
        res.env["__k__"] = max(k, m2.env.get("__k__", k))
        return res

    def _solve_count(self, test, env2, k):
        """Iteration count of `while a OP b` when a - b is linear in the iteration index with slope +-1."""
        if not (isinstance(test, ast.Compare) and len(test.ops) == 1 and isinstance(test.ops[0], (ast.Lt, ast.LtE, ast.Gt, ast.GtE))):
            return None
        try:
            left, right = self.poly(test.left, env2), self.poly(test.comparators[0], env2)
        except Unsupported:
            return None
        op = type(test.ops[0])
        if op in (ast.Gt, ast.GtE):  # a > b  ==  b < a
            left, right = right, left
            op = ast.Lt if op is ast.Gt else ast.LtE
        d = right - left  # loop runs while d > 0 (Lt) / d >= 0 (LtE)
        i = (f"_i{k}",)
        slope = d.t.get(i, 0)
        rest = Poly({m: c for m, c in d.t.items() if m != i})
        if any(f"_i{k}" in m for m in rest.t) or rest.mentions(lambda s: "@" in s):
            return None
        if slope == -1:  # rest - i > 0  <=>  i < rest ;  rest - i >= 0  <=>  i < rest + 1
            return rest if op is ast.Lt else rest + Poly.const(1)
        return None

    def _element(self, inner, base, k):
        """Abstract element of an iterable in iteration k."""
        if isinstance(inner, Seq) and inner.kind == "list" and len(inner.parts) == 1 and inner.parts[0][0] == "rep":
            return Term(f"_e{k}")  # what it is an element of is said by the loop header
        return Term(f"_e{k}")

    # ------------------------------------------------------------------ expressions
    def as_poly(self, v) -> Poly:
        if isinstance(v, Poly):
            return v
        if isinstance(v, Term):
            return Poly.sym(v.text)
        raise Unsupported(f"arithmetic on {type(v).__name__}")

    def poly(self, node, env) -> Poly:
        v = self.ev(node, env)
        return self.as_poly(v)

    def ev(self, node, env):
        if isinstance(node, ast.Constant):
            v = node.value
            if isinstance(v, bool) or v is None:
                return Term(repr(v))
            if isinstance(v, int):
                return Poly.const(v)
            if isinstance(v, bytes):
                return Seq("bytes", (("e", repr(v)),) if v else ())
            return Term(repr(v), "str" if isinstance(v, str) else None)
        if isinstance(node, ast.Name):
            if node.id in env:
                return env[node.id]
            return Term(node.id)
        if isinstance(node, ast.Tuple):
            return Tup([self.ev(e, env) for e in node.elts])
        if isinstance(node, ast.List):
            if any(isinstance(e, ast.Starred) for e in node.elts):
                raise Unsupported("starred list")
            return Seq("list", tuple(("e", text(self.ev(e, env))) for e in node.elts))
        if isinstance(node, ast.BinOp):
            return self.binop(node.op, self.ev(node.left, env), self.ev(node.right, env))
        if isinstance(node, ast.UnaryOp) and isinstance(node.op, ast.USub):
            v = self.ev(node.operand, env)
            if isinstance(v, (Poly, Term)) and getattr(v, "kind", None) != "bytes":
                return -self.as_poly(v)
        if isinstance(node, (ast.ListComp, ast.GeneratorExp)):
            return self.comp(node, env)
        if isinstance(node, ast.IfExp):
            ct, cf, _ = self.cond(node.test, env)
            known = self._member_decided(ct, cf, env)
            if known is not None:
                return self.ev(node.body if known else node.orelse, env)
            a, b = self.ev(node.body, env), self.ev(node.orelse, env)
            if (isinstance(a, Seq) or isinstance(b, Seq)) and _as_seq(a) is not None and _as_seq(b) is not None and _as_seq(a).kind == _as_seq(b).kind:
                a, b = _as_seq(a), _as_seq(b)
                return Seq(a.kind, (self.mk_if(ct, cf, a.parts, b.parts, boolean_parts=True),))
            ctext, swapped = self.orient(ct, cf)
            if swapped:
                a, b = b, a
            kind = getattr(a, "kind", None) if getattr(a, "kind", None) == getattr(b, "kind", None) else None
            return self.cond_term(ctext, a, b, kind)
        if isinstance(node, ast.JoinedStr):
            # f"{a}{b}" of two texts is a + b
            pieces = []
            for v in node.values:
                if isinstance(v, ast.Constant) and isinstance(v.value, str):
                    pieces.append(Term(repr(v.value), "str"))
                    continue
                if not isinstance(v, ast.FormattedValue) or v.conversion != -1:
                    pieces = None
                    break
                if v.format_spec is not None:
                    # f"{x:02d}" is format(x, "02d")
                    if isinstance(v.format_spec, ast.JoinedStr) and all(isinstance(x, ast.Constant) for x in v.format_spec.values):
                        spec = "".join(str(x.value) for x in v.format_spec.values)
                        pieces.append(Term(f"format({self.canon(v.value, env)}, {spec!r})", "str"))
                        continue
                    pieces = None
                    break
                part = self.ev(v.value, dict(env))
                if not ((isinstance(part, Term) and part.kind == "str") or (isinstance(part, Seq) and part.kind == "str")):
                    pieces = None
                    break
                pieces.append(part)
            if pieces and len(pieces) > 1 and any(not (isinstance(x, Term) and x.text.startswith(("'", '"'))) for x in pieces):
                out = pieces[0]
                for x in pieces[1:]:
                    out = self.binop(ast.Add(), out, x)
                return out
            return Term(self.canon(node, env), "str")
        if isinstance(node, ast.Dict) and not node.keys:
            return Seq("dict", ())
        if isinstance(node, ast.DictComp):
            return self.comp(node, env)
        if isinstance(node, ast.Dict) and all(isinstance(k, ast.Constant) and isinstance(k.value, str) for k in node.keys):
            return Term(self.canon(node, env), "dict", [(k.value, self._c(v, env)) for k, v in zip(node.keys, node.values)])
        if isinstance(node, ast.Attribute):
            t = self.canon(node, env)
            key = "@" + f"{self._c(node.value, env)}.{node.attr}"
            if key in env:
                return env[key]
            return Term(t, "str" if node.attr in STR_ATTRS else None)
        if isinstance(node, ast.Call) and not self._is_bool_call(node):
            return self.call(node, env)
        if isinstance(node, (ast.Compare, ast.BoolOp)) or (isinstance(node, ast.UnaryOp) and isinstance(node.op, ast.Not)) or self._is_bool_call(node):
            if isinstance(node, ast.Call) and isinstance(node.func, ast.Name) and node.func.id == "bool":
                node = node.args[0]  # bool(<boolean expression>) is the expression
            ct, cf, _ = self.cond(node, env)
            ctext, swapped = self.orient(ct, cf)
            return Term(ctext if not swapped else neg_text(ctext), "bool")
        if isinstance(node, ast.Subscript):
            base = self.ev(node.value, env)
            if isinstance(base, Tup) and isinstance(node.slice, ast.Constant) and isinstance(node.slice.value, int) and -len(base.items) <= node.slice.value < len(base.items):
                return base.items[node.slice.value]
            kind = getattr(base, "kind", None) if isinstance(node.slice, ast.Slice) and getattr(base, "kind", None) in ("bytes", "str") and isinstance(base, Term) else None
            return Term(self.canon(node, env), kind)
        return Term(self.canon(node, env))

    def comp(self, node, env):
        if any(g.is_async for g in node.generators):
            raise Unsupported("async comprehension")
        # desugar into a loop over a fresh accumulator
        acc = f"__comp{id(node) % 100000}"
        if isinstance(node, ast.DictComp):
            inner: list = [ast.Assign(targets=[ast.Subscript(value=ast.Name(id=acc, ctx=ast.Load()), slice=node.key, ctx=ast.Store())], value=node.value)]
        else:
            inner = [ast.Expr(value=ast.Call(func=ast.Attribute(value=ast.Name(id=acc, ctx=ast.Load()), attr="append", ctx=ast.Load()), args=[node.elt], keywords=[]))]
        for gen in reversed(node.generators):
            for c in reversed(gen.ifs):
                inner = [ast.If(test=c, body=inner, orelse=[])]
            inner = [ast.For(target=gen.target, iter=gen.iter, body=inner, orelse=[])]
        st = State(dict(env), [])
        st.env[acc] = Seq("dict" if isinstance(node, ast.DictComp) else "list", ())
        for s in inner:
            ast.fix_missing_locations(ast.copy_location(s, node))
        self.depth += 1
        try:
            tree = self.block(inner, st)
        finally:
            self.depth -= 1
        if not isinstance(tree, Leaf):
            raise Unsupported("comprehension with exits")
        self._comp_effects.extend(tree.state.effects)  # what evaluating the comprehension calls, per element
        if "__k__" in tree.state.env:
            env["__k__"] = tree.state.env["__k__"]  # a comprehension is a loop like any other for the numbering
        return tree.state.env[acc]

    def binop(self, op, a, b):
        is_bytes = lambda v: (isinstance(v, Seq)) or getattr(v, "kind", None) in ("bytes", "str")  # noqa: E731
        if isinstance(op, ast.Add) and (is_bytes(a) or is_bytes(b)):
            kind = a.kind if isinstance(a, Seq) else (b.kind if isinstance(b, Seq) else (getattr(a, "kind", None) or getattr(b, "kind", None) or "bytes"))
            pa = a.parts if isinstance(a, Seq) else (("e", text(a)),)
            pb = b.parts if isinstance(b, Seq) else (("e", text(b)),)
            return Seq(kind, pa + pb)
        if isinstance(a, Tup) or isinstance(b, Tup):
            if isinstance(op, ast.Add) and isinstance(a, Tup) and isinstance(b, Tup):
                return Tup(a.items + b.items)
            raise Unsupported("tuple arithmetic")
        if isinstance(a, Seq) or isinstance(b, Seq):
            raise Unsupported("sequence arithmetic")
        pa, pb = self.as_poly(a), self.as_poly(b)
        if isinstance(op, ast.Add):
            return pa + pb
        if isinstance(op, ast.Sub):
            return pa - pb
        if isinstance(op, ast.Mult):
            if any(isinstance(x, Term) and x.kind == "str" for x in (a, b)):
                return Term(text(pa * pb), "str")  # a text repeated is a text
            return pa * pb
        sym = {ast.FloorDiv: "//", ast.Mod: "%", ast.LShift: "<<", ast.RShift: ">>", ast.BitAnd: "&", ast.BitOr: "|", ast.BitXor: "^", ast.Div: "/", ast.Pow: "**"}.get(type(op))
        if sym is None:
            raise Unsupported(f"operator {type(op).__name__}")
        if pa.is_const() and pb.is_const() and sym in ("//", "%", "<<", ">>", "&", "|", "^", "**"):
            x, y = pa.value(), pb.value()
            try:
                return Poly.const({"//": lambda: x // y, "%": lambda: x % y, "<<": lambda: x << y, ">>": lambda: x >> y, "&": lambda: x & y, "|": lambda: x | y, "^": lambda: x ^ y, "**": lambda: x**y}[sym]())
            except Exception:
                pass
        return Poly.sym(f"({atom_text(pa)} {sym} {atom_text(pb)})")

    def call(self, node, env):
        f = node.func
        name = norm(f)
        if any(isinstance(a, ast.Starred) for a in node.args) or any(k.arg is None for k in node.keywords):
            return Term(self.canon(node, env))
        if isinstance(f, ast.Name) and f.id in ("dict", "OrderedDict") and not node.args and not node.keywords:
            return Seq("dict", ())
        if isinstance(f, ast.Name) and f.id == "sum" and len(node.args) == 1 and not node.keywords:
            return Poly.sym(f"sum({text(self.ev(node.args[0], env))})")
        if isinstance(f, ast.Name) and f.id == "len" and len(node.args) == 1:
            v = self.ev(node.args[0], env)
            if isinstance(v, Seq) and all(p[0] == "e" for p in v.parts) and v.kind == "list":
                return Poly.const(len(v.parts))
            if isinstance(v, Seq) and v.kind == "list" and len(v.parts) == 1 and v.parts[0][0] == "rep":
                # one element appended per iteration: the length is the iteration count
                body = v.parts[0][2]
                loops = {h: c for _, h, c in env.get("__loops__", ())}
                if len(body) == 1 and body[0][0] == "e" and v.parts[0][1] in loops:
                    try:
                        return self.poly(ast.parse(loops[v.parts[0][1]], mode="eval").body, {})
                    except Exception:
                        pass
            return Poly.sym(f"len({text(v)})")
        if isinstance(f, ast.Name) and f.id in ("bytes", "bytearray", "list", "tuple") and len(node.args) == 1 and not node.keywords:
            v = self.ev(node.args[0], env)
            if isinstance(v, Seq):
                return Seq("bytes" if f.id in ("bytes", "bytearray") and v.kind == "bytes" else v.kind, v.parts) if f.id in ("list", "tuple") or v.kind == "bytes" else Term(f"{f.id}({text(v)})", "bytes")
            if f.id in ("bytes", "bytearray") and getattr(v, "kind", None) == "bytes":
                return v  # bytes(bytes) / bytearray(bytes): same content
            return Term(f"{f.id}({text(v)})", "bytes" if f.id in ("bytes", "bytearray") else None)
        if isinstance(f, ast.Attribute) and f.attr == "join" and len(node.args) == 1 and isinstance(f.value, ast.Constant) and f.value.value in (b"", ""):
            v = self.ev(node.args[0], env)
            if isinstance(v, Seq):
                return Seq("bytes", v.parts)
        txt = self.canon(node, env)
        kind = "bytes" if any(name.endswith(x) or name == x.lstrip(".") for x in BYTES_CALLS) else None
        if kind is None and (name.endswith(STR_CALLS) or name in ("str", "repr", "hex", "chr", "oct", "bin", "format")):
            kind = "str"
        return Term(txt, kind)

    # canonical text of an expression: locals replaced by what they stand for, integer arithmetic normalised
    def canon(self, node, env) -> str:
        return self._c(node, env)

    def _c(self, n, env) -> str:
        if isinstance(n, ast.Name):
            return atom_text(env[n.id]) if n.id in env else n.id
        if isinstance(n, ast.Constant):
            return repr(n.value)
        if isinstance(n, ast.Attribute):
            t = f"{self._c(n.value, env)}.{n.attr}"
            return atom_text(env["@" + t]) if ("@" + t) in env else t
        if isinstance(n, (ast.BinOp,)) or (isinstance(n, ast.UnaryOp) and isinstance(n.op, ast.USub)):
            try:
                return atom_text(self.ev(n, env))
            except Unsupported:
                pass
        if isinstance(n, ast.Call):
            if isinstance(n.func, ast.Name) and n.func.id == "list" and len(n.args) == 1 and not n.keywords and "list" not in env:
                t_ = self._c(n.args[0], env)
                if len(t_) >= 2 and t_[0] + t_[-1] == "[]" and _balanced(t_[1:-1]):
                    return t_  # `list([a, b])` of a display is (a fresh copy of) that display
            if isinstance(n.func, ast.Name) and n.func.id == "len" and len(n.args) == 1:
                return atom_text(self.call(n, env))
            if isinstance(n.func, ast.Name) and n.func.id in ("bytes", "bytearray") and len(n.args) == 1 and not n.keywords:
                return atom_text(self.call(n, env))
            args = []
            for a in n.args:
                if isinstance(a, ast.Starred):
                    inner = a.value
                    v = env.get(inner.id) if isinstance(inner, ast.Name) else None
                    if isinstance(inner, (ast.Tuple, ast.List)) and not any(isinstance(x, ast.Starred) for x in inner.elts):
                        args.extend(self._c(x, env) for x in inner.elts)  # f(*(a, b)) is f(a, b)
                    elif isinstance(v, Tup):
                        args.extend(text(x) for x in v.items)
                    elif isinstance(v, Seq) and v.kind == "list" and all(p_[0] == "e" for p_ in v.parts):
                        args.extend(p_[1] for p_ in v.parts)
                    else:
                        args.append("*" + self._c(inner, env))
                else:
                    args.append(self._c(a, env))
            kws = []
            for k in n.keywords:
                if k.arg is None and isinstance(k.value, ast.Dict) and all(isinstance(x, ast.Constant) and isinstance(x.value, str) for x in k.value.keys):
                    kws.extend((x.value, self._c(v, env)) for x, v in zip(k.value.keys, k.value.values))  # f(**{'a': 1}) is f(a=1)
                elif k.arg is None and isinstance(k.value, ast.Name) and isinstance(env.get(k.value.id), Term) and env[k.value.id].items is not None:
                    kws.extend(env[k.value.id].items)
                elif k.arg is None:
                    kws.append(("**", self._c(k.value, env)))
                else:
                    kws.append((k.arg, self._c(k.value, env)))
            args += [f"{a}={v}" if a != "**" else f"**{v}" for a, v in sorted(kws)]
            return f"{self._c(n.func, env)}({', '.join(args)})"
        if isinstance(n, ast.Subscript):
            base = self._c(n.value, env)
            if isinstance(n.slice, ast.Slice):
                lo = self._c(n.slice.lower, env) if n.slice.lower is not None else ""
                hi = self._c(n.slice.upper, env) if n.slice.upper is not None else ""
                st = (":" + self._c(n.slice.step, env)) if n.slice.step is not None else ""
                lo = lo[1:-1] if lo.startswith("(") and lo.endswith(")") and lo.count("(") == 1 else lo
                hi = hi[1:-1] if hi.startswith("(") and hi.endswith(")") and hi.count("(") == 1 else hi
                if lo == "0" and not st:
                    lo = ""  # x[0:n] is x[:n]
                return f"{base}[{lo}:{hi}{st}]"
            idx = self._c(n.slice, env)
            idx = idx[1:-1] if idx.startswith("(") and idx.endswith(")") and idx.count("(") == 1 else idx
            return f"{base}[{idx}]"
        if isinstance(n, ast.Compare):
            out = self._c(n.left, env)
            ops = {ast.Eq: "==", ast.NotEq: "!=", ast.Lt: "<", ast.LtE: "<=", ast.Gt: ">", ast.GtE: ">=", ast.Is: "is", ast.IsNot: "is not", ast.In: "in", ast.NotIn: "not in"}
            for op, c in zip(n.ops, n.comparators):
                out += f" {ops[type(op)]} {self._c(c, env)}"
            return out
        if isinstance(n, ast.BoolOp):
            j = " and " if isinstance(n.op, ast.And) else " or "
            return "(" + j.join(self._c(v, env) for v in n.values) + ")"
        if isinstance(n, ast.UnaryOp):
            sym = {ast.Not: "not ", ast.USub: "-", ast.UAdd: "+", ast.Invert: "~"}[type(n.op)]
            return f"({sym}{self._c(n.operand, env)})"
        if isinstance(n, ast.BinOp):
            sym = {ast.Add: "+", ast.Sub: "-", ast.Mult: "*", ast.FloorDiv: "//", ast.Mod: "%", ast.LShift: "<<", ast.RShift: ">>", ast.BitAnd: "&", ast.BitOr: "|", ast.BitXor: "^", ast.Div: "/", ast.Pow: "**", ast.MatMult: "@"}[type(n.op)]
            return f"({self._c(n.left, env)} {sym} {self._c(n.right, env)})"
        if isinstance(n, ast.JoinedStr):
            busy = self.__dict__.setdefault("_fstring_busy", set())
            if any(isinstance(v, ast.FormattedValue) for v in n.values) and id(n) not in busy:
                busy.add(id(n))
                try:
                    val = self.ev(n, dict(env))  # an f-string of texts is their concatenation (same form as `a + b`)
                finally:
                    busy.discard(id(n))
                if not (isinstance(val, Term) and val.text.startswith(("f'", 'f"'))):
                    return atom_text(val)
            out = ""
            for v in n.values:
                if isinstance(v, ast.Constant):
                    out += str(v.value).replace("{", "{{").replace("}", "}}")
                else:
                    out += "{" + self._c(v.value, env) + ("!" + chr(v.conversion) if v.conversion != -1 else "") + (":" + self._c(v.format_spec, env)[2:-1] if v.format_spec is not None else "") + "}"
            return "f" + repr(out)
        if isinstance(n, (ast.Tuple, ast.List)):
            texts = []
            for e in n.elts:
                if isinstance(e, ast.Starred):
                    t = self._c(e.value, env)
                    if len(t) >= 2 and t[0] + t[-1] in ("[]", "()") and _balanced(t[1:-1]):
                        if t[1:-1].rstrip(",").strip():
                            texts.append(t[1:-1].rstrip(",").rstrip())  # `[*[a, b], c]` is `[a, b, c]`
                        continue
                    texts.append("*" + t)
                else:
                    texts.append(self._c(e, env))
            inner = ", ".join(texts)
            return f"({inner}{',' if len(texts) == 1 else ''})" if isinstance(n, ast.Tuple) else f"[{inner}]"
        if isinstance(n, ast.Call) and isinstance(n.func, ast.Name) and n.func.id == "list" and len(n.args) == 1 and not n.keywords and n.func.id not in env:
            t = self._c(n.args[0], env)
            if len(t) >= 2 and t[0] + t[-1] == "[]" and _balanced(t[1:-1]):
                return t  # `list([a, b])` of a display is (a fresh copy of) that display
        if isinstance(n, ast.Dict):
            return "{" + ", ".join(f"{self._c(k, env) if k is not None else '**'}: {self._c(v, env)}" for k, v in zip(n.keys, n.values)) + "}"
        if isinstance(n, ast.IfExp):
            return atom_text(self.ev(n, env))
        if isinstance(n, (ast.ListComp, ast.GeneratorExp)):
            return text(self.comp(n, env))
        if isinstance(n, (ast.DictComp, ast.SetComp)):
            inner = dict(env)
            gens = []
            for g in n.generators:
                it = self._c(g.iter, inner)
                for x in ast.walk(g.target):
                    if isinstance(x, ast.Name):
                        inner.pop(x.id, None)
                gens.append(f"for {norm(g.target)} in {it}" + "".join(f" if {self._c(c, inner)}" for c in g.ifs))
            head = f"{self._c(n.key, inner)}: {self._c(n.value, inner)}" if isinstance(n, ast.DictComp) else self._c(n.elt, inner)
            return "{" + head + " " + " ".join(gens) + "}"
        if isinstance(n, ast.Starred):
            return "*" + self._c(n.value, env)
        if isinstance(n, ast.Lambda):
            return norm(n)
        if isinstance(n, ast.Slice):
            return f"{self._c(n.lower, env) if n.lower else ''}:{self._c(n.upper, env) if n.upper else ''}"
        raise Unsupported(f"expression {type(n).__name__}")


def _intervals(conds):
    """Integer constraints on one expression (`X < k`, `X == k`, lengths are >= 0) as a canonical interval:
    `n == 0 / n > 1 / else` and `n >= 2 / n == 1 / else` describe the same three cases.  None if contradictory."""
    import re

    groups: dict = {}
    rest = set()
    for t, pol in conds:
        m = re.match(r"^(.*) (<|==) (-?\d+)$", t)
        if m and not t.startswith("ALL["):
            groups.setdefault(m.group(1), []).append((m.group(2), int(m.group(3)), pol))
        else:
            rest.add((t, pol))
    for x, cs in groups.items():
        lo = 0 if x.startswith("len(") else None
        natural = lo
        hi = None
        holes = set()
        for kind, k, pol in cs:
            if kind == "<" and pol:
                hi = k - 1 if hi is None else min(hi, k - 1)
            elif kind == "<":
                lo = k if lo is None else max(lo, k)
            elif pol:
                lo = k if lo is None else max(lo, k)
                hi = k if hi is None else min(hi, k)
            else:
                holes.add(k)
        changed = True
        while changed:
            changed = False
            for h in sorted(holes):
                if lo is not None and h == lo:
                    lo += 1
                    holes.discard(h)
                    changed = True
                elif hi is not None and h == hi:
                    hi -= 1
                    holes.discard(h)
                    changed = True
        if lo is not None and hi is not None and lo > hi:
            return None
        if lo is not None and hi is not None and lo == hi and lo == natural:
            rest.add((f"{x} < {lo + 1}", True))  # the lowest possible value: the complement of `not x < lo + 1`, one atom for both
        elif lo is not None and hi is not None and lo == hi:
            rest.add((f"{x} == {lo}", True))
        else:
            if lo is not None and lo != natural:
                rest.add((f"{x} < {lo}", False))
            if hi is not None:
                rest.add((f"{x} < {hi + 1}", True))
        for h in holes:
            if (lo is None or h > lo) and (hi is None or h < hi):
                rest.add((f"{x} == {h}", False))
    return rest


def sequence_parameters(fn) -> set:
    """Names of the parameters annotated as list / dict / tuple / set / bytes / bytearray / str."""
    out = set()
    for a in fn.args.args + fn.args.kwonlyargs:
        if a.annotation is not None:
            t = ast.unparse(a.annotation).replace("typing.", "")
            if t.split("[")[0].lower() in ("list", "dict", "tuple", "set", "bytes", "bytearray", "str", "sequence", "mapping", "frozenset"):
                out.add(a.arg)
    return out


def summarise(fn: ast.FunctionDef, params: dict | None = None, consts: dict | None = None, seq_names=None):
    """[Path] of the function."""
    return Summariser(fn, params, consts, seq_names).run()


def describe(paths) -> str:
    return " || ".join(repr(p) for p in paths)
