"""Inlining of extracted private helpers.

A rule that analyses the body of one method must give the same verdict when a maintainer moves part of that body into
a private helper of the same class ("extract method").  expand() returns a copy of the method in which every call

    self._helper(args)            as a statement,
    return self._helper(args)
    name = self._helper(args)

is replaced by an InlineBlock holding the helper's body (parameters bound, locals renamed on collision), provided

  * the helper is a method of the same class (own or inherited), private (leading underscore, not dunder),
  * every reference to its name in the whole repository is the callee of a direct `self.name(...)` call - so it is
    not a callback, not registered anywhere, not looked up by name - and no subclass overrides it,
  * its name is not in `keep` (the callees the rule itself treats as anchors),
  * it is a plain function (no generator, no nested def, no *args/**kwargs at the call).

Inside an InlineBlock a helper `return` becomes LeaveBlock (statement form), `name = value; LeaveBlock` (assignment
form) or stays `return` (return form); cfg.CFG knows both node kinds.  Nothing here is specific to one rule.
"""

from __future__ import annotations

import ast
import collections
import copy

from .model import norm, walk_no_nested


class InlineBlock(ast.stmt):
    _fields = ("body",)


class LeaveBlock(ast.stmt):
    """Leave the `levels` innermost enclosing InlineBlocks (1 unless the statement was moved into a deeper block)."""

    _fields = ()
    _attributes = ("lineno", "col_offset", "end_lineno", "end_col_offset", "levels")
    levels = 1


def _deepen_leaves(stmts, by=1):
    """Statements moved one block deeper: their own LeaveBlocks (not those inside blocks they bring along) leave one more."""
    def walk(lst, depth):
        for st in lst:
            if isinstance(st, LeaveBlock):
                if getattr(st, "levels", 1) > depth:
                    st.levels = getattr(st, "levels", 1) + by
                continue
            for field in ("body", "orelse", "finalbody"):
                sub = getattr(st, field, None)
                if isinstance(sub, list) and sub and isinstance(sub[0], ast.stmt):
                    walk(sub, depth + 1 if isinstance(st, InlineBlock) else depth)
            if isinstance(st, ast.Try):
                for h in st.handlers:
                    walk(h.body, depth)
    walk(stmts, 0)
    return stmts


def _ref_counts(repo):
    """name -> (references of any kind, references that are the callee of `self.name(...)` / `cls.name(...)`)."""
    cached = getattr(repo, "_sa_refcounts", None)
    if cached is None:
        refs, calls = collections.Counter(), collections.Counter()
        mods = repo.modules.values() if isinstance(repo.modules, dict) else repo.modules
        for m in mods:
            for n in ast.walk(m.tree):
                if isinstance(n, ast.Attribute):
                    refs[n.attr] += 1
                elif isinstance(n, ast.Constant) and isinstance(n.value, str) and n.value.isidentifier():
                    refs[n.value] += 1  # getattr(self, "name") style references
                if isinstance(n, ast.Call) and isinstance(n.func, ast.Attribute) and isinstance(n.func.value, ast.Name) and n.func.value.id in ("self", "cls"):
                    calls[n.func.attr] += 1
        cached = (refs, calls)
        repo._sa_refcounts = cached
    return cached


def _helper_for(repo, finfo, call: ast.Call, keep):
    if not isinstance(call.func, ast.Attribute) or not isinstance(call.func.value, ast.Name):
        return None
    recv, name = call.func.value.id, call.func.attr
    cls = finfo.cls
    if cls is None or recv not in ("self", "cls", cls.name.split(".")[-1]):
        return None
    if not name.startswith("_") or (name.startswith("__") and name.endswith("__")) or name in keep or name == finfo.name:
        return None
    helper = cls.find_method(name)
    if helper is None or helper.cls is None:
        return None
    refs, direct_calls = _ref_counts(repo)
    if refs[name] != direct_calls[name]:
        return None  # also used as a value (callback, registration, getattr by name): an interface of its own
    for sub in repo.subclasses(cls.name):
        if name in sub.methods:
            return None
    node = helper.node
    if any(isinstance(x, (ast.Yield, ast.YieldFrom, ast.Await, ast.Global, ast.Nonlocal)) for x in ast.walk(node)):
        return None
    if any(isinstance(x, (ast.FunctionDef, ast.AsyncFunctionDef, ast.ClassDef)) and x is not node for x in ast.walk(node)):
        return None
    if any(isinstance(a, ast.Starred) for a in call.args) or any(k.arg is None for k in call.keywords):
        return None
    if node.args.vararg or node.args.kwarg or node.args.posonlyargs:
        return None
    decos = set(helper.decorators)
    if decos - {"staticmethod", "classmethod"}:
        return None
    return helper


def _local_names(fn) -> set:
    out = {a.arg for a in fn.args.args + fn.args.kwonlyargs}
    for n in walk_no_nested(fn):
        if isinstance(n, ast.Name) and isinstance(n.ctx, (ast.Store, ast.Del)):
            out.add(n.id)
    return out


def _simple(e) -> bool:
    """Cheap to duplicate and free of effects: names, attribute chains, constants."""
    if isinstance(e, (ast.Name, ast.Constant)):
        return True
    if isinstance(e, ast.Attribute):
        return _simple(e.value)
    return False


def pure_ref(e) -> bool:
    """A reference that can be duplicated for matching: names, attribute chains, subscripts of those by such an index,
    and the `.get()` accessor of a decoded item."""
    if isinstance(e, (ast.Name, ast.Constant)):
        return True
    if isinstance(e, ast.Attribute):
        return pure_ref(e.value)
    if isinstance(e, ast.Subscript):
        return pure_ref(e.value) and pure_ref(e.slice) and not isinstance(e.slice, ast.Slice)
    if isinstance(e, ast.Call) and isinstance(e.func, ast.Attribute) and e.func.attr == "get" and not e.args and not e.keywords:
        if "queue" in norm(e.func.value).lower():
            return False  # Queue.get() consumes: never a reference
        return pure_ref(e.func.value)
    return False


class _Rename(ast.NodeTransformer):
    def __init__(self, mapping):
        self.mapping = mapping

    def visit_Name(self, node):
        rep = self.mapping.get(node.id)
        if rep is None:
            return node
        if isinstance(rep, str):
            return ast.copy_location(ast.Name(id=rep, ctx=node.ctx), node)
        if isinstance(node.ctx, ast.Load):
            return ast.copy_location(copy.deepcopy(rep), node)
        return node


def _target_node(target):
    """Store target for the result of an inlined call: a local name or an attribute (`self._thread = self._make(...)`)."""
    if isinstance(target, str):
        return ast.Name(id=target, ctx=ast.Store())
    t = copy.deepcopy(target)
    t.ctx = ast.Store()
    return t


class _Returns(ast.NodeTransformer):
    def __init__(self, form, target):
        self.form, self.target = form, target

    def visit_Return(self, node):
        if self.form == "return":
            return node
        out = []
        if self.form == "assign":
            value = node.value if node.value is not None else ast.Constant(value=None)
            out.append(ast.copy_location(ast.Assign(targets=[_target_node(self.target)], value=value), node))
        elif node.value is not None and not isinstance(node.value, ast.Constant):
            out.append(ast.copy_location(ast.Expr(value=node.value), node))
        out.append(ast.copy_location(LeaveBlock(), node))
        return out


def _prune(stmts):
    """Drop branches decided by a constant test (a flag parameter bound to a literal at the call)."""
    out = []
    for st in stmts:
        for field in ("body", "orelse", "finalbody"):
            sub = getattr(st, field, None)
            if isinstance(sub, list) and sub and isinstance(sub[0], ast.stmt):
                setattr(st, field, _prune(sub) or ([ast.copy_location(ast.Pass(), st)] if field == "body" else []))
        if isinstance(st, ast.If):
            test = st.test
            neg = False
            while isinstance(test, ast.UnaryOp) and isinstance(test.op, ast.Not):
                test, neg = test.operand, not neg
            if isinstance(test, ast.Constant):
                taken = bool(test.value) != neg
                out.extend(st.body if taken else st.orelse)
                continue
        out.append(st)
    return out


def _copy_node(node):
    """Deep copy without the analysis caches hung on the node."""
    saved = node.__dict__.pop("_sa_cfg", None)
    try:
        try:
            import pickle

            return pickle.loads(pickle.dumps(node, protocol=pickle.HIGHEST_PROTOCOL))  # several times faster than deepcopy on syntax trees
        except Exception:
            return copy.deepcopy(node)
    finally:
        if saved is not None:
            node._sa_cfg = saved



def _build_block(helper, call, form, target, caller_locals):
    hnode = _copy_node(helper.node)
    params = list(hnode.args.args)
    static = "staticmethod" in helper.decorators
    if not static and params:
        first = params.pop(0).arg  # self / cls
    else:
        first = None
    defaults = dict(zip([p.arg for p in params][len(params) - len(hnode.args.defaults):], hnode.args.defaults)) if hnode.args.defaults else {}
    bound = {}
    for p, a in zip(params, call.args):
        bound[p.arg] = a
    for k in call.keywords:
        bound[k.arg] = k.value
    for p in params + list(hnode.args.kwonlyargs):
        if p.arg not in bound:
            if p.arg in defaults:
                bound[p.arg] = defaults[p.arg]
            else:
                kd = dict(zip([x.arg for x in hnode.args.kwonlyargs], hnode.args.kw_defaults))
                if kd.get(p.arg) is not None:
                    bound[p.arg] = kd[p.arg]
                else:
                    return None
    assigned = {n.id for n in walk_no_nested(hnode) if isinstance(n, ast.Name) and isinstance(n.ctx, (ast.Store, ast.Del))}
    mapping = {}
    prologue = []
    if first is not None and isinstance(call.func, ast.Attribute) and isinstance(call.func.value, ast.Name) and first != call.func.value.id:
        mapping[first] = call.func.value.id
    target_name = target if isinstance(target, str) else None
    for name, arg in bound.items():
        clobbered = form == "assign" and target_name is not None and any(isinstance(x, ast.Name) and x.id == target_name for x in ast.walk(arg))
        if _simple(arg) and name not in assigned and not clobbered:
            mapping[name] = arg
        else:
            new = name if name not in caller_locals else name + "_inl"
            mapping[name] = new
            prologue.append(ast.copy_location(ast.Assign(targets=[ast.Name(id=new, ctx=ast.Store())], value=copy.deepcopy(arg)), call))
    for name in assigned:
        if name not in mapping and name in caller_locals:
            mapping[name] = name + "_inl"
    body = [s for s in hnode.body]
    body = [_Rename(mapping).visit(s) for s in body]
    body = _prune(body)
    new_body = []
    tr = _Returns(form, target)
    for s in body:
        r = tr.visit(s)
        new_body.extend(r if isinstance(r, list) else [r])
    if form != "return" and new_body and isinstance(new_body[-1], LeaveBlock):
        new_body.pop()  # leaving at the very end of the block is no early exit
    if form == "return":
        new_body.append(ast.copy_location(ast.Return(value=ast.Constant(value=None)), call))
    elif form == "assign":
        # falling off the end of the helper yields None: the default comes first, every return overwrites it
        new_body.insert(0, ast.copy_location(ast.Assign(targets=[_target_node(target)], value=ast.Constant(value=None)), call))
    block = InlineBlock(body=prologue + new_body)
    ast.copy_location(block, call)
    ast.fix_missing_locations(block)
    block._sa_helper = helper.name  # a plain string: the block is copied (pickled) many times
    return block


def _thread_guard(block, tmp: str, if_stmt) -> bool:
    """The block computes `tmp` (a boolean constant at each of its exits) and `if_stmt` tests it at once: put the branch
    that each exit selects at that exit and drop the test.  `tmp = K; LeaveBlock` becomes `<branch K>; LeaveBlock`; the
    statements after the `if` still follow the block.  False if the block is not of that shape (nothing is changed)."""
    neg = isinstance(if_stmt.test, ast.UnaryOp)
    sites = []

    def scan(lst, top):
        for i, st in enumerate(lst):
            if isinstance(st, ast.Assign) and len(st.targets) == 1 and isinstance(st.targets[0], ast.Name) and st.targets[0].id == tmp:
                if isinstance(st.value, ast.Constant) and st.value.value is None and top and i == 0:
                    continue  # the default for falling off the end: the helper ends in a return, it is never read
                last = top and i == len(lst) - 1
                if not (isinstance(st.value, ast.Constant) and isinstance(st.value.value, bool)) or not (last or (i + 1 < len(lst) and isinstance(lst[i + 1], LeaveBlock))):
                    return False
                sites.append((lst, i, st.value.value))
            for field in ("body", "orelse"):
                sub = getattr(st, field, None)
                if isinstance(sub, list) and sub and isinstance(sub[0], ast.stmt) and not isinstance(st, InlineBlock):
                    if scan(sub, False) is False:
                        return False
            if isinstance(st, InlineBlock) and any(isinstance(x, ast.Name) and x.id == tmp for x in ast.walk(st)):
                return False
        return True

    if scan(block.body, True) is False or not sites:
        return False
    if not (block.body and isinstance(block.body[-1], ast.Assign) and any(l is block.body and i == len(block.body) - 1 for l, i, _ in sites)):
        return False
    for lst, i, k in sorted(sites, key=lambda t: -t[1]):
        taken = if_stmt.body if (k != neg) else if_stmt.orelse
        lst[i:i + 1] = _deepen_leaves([_copy_node(x) for x in taken]) or [ast.copy_location(ast.Pass(), if_stmt)]
    if block.body and isinstance(block.body[0], ast.Assign) and isinstance(block.body[0].targets[0], ast.Name) and block.body[0].targets[0].id == tmp:
        block.body.pop(0)
    return True


def _match(stmt):
    """(form, call, target) if stmt is one of the three inlinable call forms."""
    if isinstance(stmt, ast.Expr) and isinstance(stmt.value, ast.Call):
        return "stmt", stmt.value, None
    if isinstance(stmt, ast.Return) and isinstance(stmt.value, ast.Call):
        return "return", stmt.value, None
    if isinstance(stmt, ast.Assign) and len(stmt.targets) == 1 and isinstance(stmt.value, ast.Call) and (isinstance(stmt.targets[0], ast.Name) or (isinstance(stmt.targets[0], ast.Attribute) and pure_ref(stmt.targets[0]))):
        return "assign", stmt.value, (stmt.targets[0].id if isinstance(stmt.targets[0], ast.Name) else stmt.targets[0])
    return None


def _search_loop_as_expression(body):
    """`for v in IT: if [not] E: return False/True` followed by `return True/False` is `return all(E ...)` / `any(...)`."""
    if (len(body) == 2 and isinstance(body[0], ast.For) and not body[0].orelse and len(body[0].body) == 1 and isinstance(body[0].body[0], ast.If) and not body[0].body[0].orelse
            and len(body[0].body[0].body) == 1 and isinstance(body[0].body[0].body[0], ast.Return) and isinstance(body[1], ast.Return)
            and isinstance(body[0].body[0].body[0].value, ast.Constant) and isinstance(body[1].value, ast.Constant)
            and isinstance(body[0].body[0].body[0].value.value, bool) and isinstance(body[1].value.value, bool)
            and body[0].body[0].body[0].value.value != body[1].value.value):
        loop, test, hit = body[0], body[0].body[0].test, body[0].body[0].body[0].value.value
        if hit is False:  # leave with False when the test holds: all(not test)
            elt = test.operand if isinstance(test, ast.UnaryOp) and isinstance(test.op, ast.Not) else ast.UnaryOp(op=ast.Not(), operand=test)
            name = "all"
        else:
            elt, name = test, "any"
        gen = ast.GeneratorExp(elt=elt, generators=[ast.comprehension(target=loop.target, iter=loop.iter, ifs=[], is_async=0)])
        ret = ast.Return(value=ast.Call(func=ast.Name(id=name, ctx=ast.Load()), args=[gen], keywords=[]))
        ast.copy_location(ret, body[0])
        ast.fix_missing_locations(ret)
        return [ret]
    return body


def _expr_pass(repo, finfo, fn, keep, used) -> bool:
    """Replace calls of one-expression helpers (`def _h(self, a): return <expr>`) by the expression."""
    changed = False

    class Sub(ast.NodeTransformer):
        def visit_Call(self, node):
            nonlocal changed
            self.generic_visit(node)
            helper = _helper_for(repo, finfo, node, keep)
            if helper is None:
                return node
            body = [s for s in helper.node.body if not (isinstance(s, ast.Expr) and isinstance(s.value, ast.Constant))]
            body = _search_loop_as_expression(body)
            if len(body) != 1 or not isinstance(body[0], ast.Return) or body[0].value is None:
                return node
            params = [a.arg for a in helper.node.args.args]
            if "staticmethod" not in helper.decorators and params:
                params = params[1:]
            if helper.node.args.defaults or helper.node.args.kwonlyargs or len(node.args) + len(node.keywords) != len(params):
                return node
            bound = dict(zip(params, node.args))
            for k in node.keywords:
                bound[k.arg] = k.value
            if set(bound) != set(params):
                return node
            expr = _copy_node(body[0].value)
            uses = collections.Counter(x.id for x in ast.walk(expr) if isinstance(x, ast.Name))
            if any(not pure_ref(a) and uses[p] > 1 for p, a in bound.items()):
                return node
            expr = _Rename(dict(bound)).visit(expr)
            used.append(helper)
            changed = True
            return ast.copy_location(expr, node)

    # predicates written as lambdas / nested functions read the same helpers: descend into them
    Sub().visit(fn)
    return changed


def expand(repo, finfo, keep=(), depth=3, pre=None):
    """(function node with helpers inlined, [helper FuncInfo]) - the original node when nothing is inlinable.
    pre: optional rewriting applied to the working copy before each round (sa.normal puts tails into branches)."""
    keep = set(keep)
    fn = finfo.node
    used = []
    for _ in range(depth):
        locals_ = _local_names(fn)
        changed = False
        new_fn = None

        def rewrite(stmts):
            nonlocal changed
            out = []
            for st in stmts:
                # `if [not] self._h(...):` - the helper's result is taken first, then tested (an if evaluates its test once)
                if isinstance(st, ast.If):
                    test = st.test.operand if isinstance(st.test, ast.UnaryOp) and isinstance(st.test.op, ast.Not) else st.test
                    hlp = _helper_for(repo, finfo, test, keep) if isinstance(test, ast.Call) else None
                    hbody = [x for x in hlp.node.body if not (isinstance(x, ast.Expr) and isinstance(x.value, ast.Constant) and isinstance(x.value.value, str))] if hlp is not None else []
                    straight = hlp is not None and len(hbody) >= 2 and all(isinstance(x, (ast.Assign, ast.AugAssign, ast.AnnAssign, ast.Expr)) for x in hbody[:-1]) and isinstance(hbody[-1], ast.Return)
                    # a guard helper: branches only (no loop, no handler), every return a boolean constant, the last
                    # statement a return - its exits are threaded into the branches of this `if` (see _thread_guard)
                    guard = (hlp is not None and not straight and len(hbody) >= 2 and isinstance(hbody[-1], ast.Return)
                             and all(isinstance(x, (ast.If, ast.Assign, ast.AugAssign, ast.AnnAssign, ast.Expr, ast.Return, ast.Pass, ast.Raise, ast.expr_context, ast.expr, ast.operator,
                                                    ast.unaryop, ast.cmpop, ast.boolop, ast.keyword, ast.arguments, ast.arg)) for b in hbody for x in ast.walk(b))
                             and all(isinstance(x.value, ast.Constant) and isinstance(x.value.value, bool) for b in hbody for x in ast.walk(b) if isinstance(x, ast.Return)))
                    if straight or guard:  # other helpers with branches / loops / handlers stay calls: their result is one opaque truth value
                        tmp = f"_h{len(used)}_{getattr(st, 'lineno', 0)}"
                        if tmp not in locals_:
                            pre_assign = ast.copy_location(ast.Assign(targets=[ast.Name(id=tmp, ctx=ast.Store())], value=test), st)
                            name = ast.copy_location(ast.Name(id=tmp, ctx=ast.Load()), test)
                            if test is st.test:
                                st.test = name
                            else:
                                st.test.operand = name
                            ast.fix_missing_locations(pre_assign)
                            pre = rewrite([pre_assign])
                            if guard and len(pre) == 1 and isinstance(pre[0], InlineBlock) and _thread_guard(pre[0], tmp, st):
                                out.extend(pre)
                                changed = True
                                continue  # the `if` has been distributed over the exits of the block
                            out.extend(pre)
                            changed = True
                m = _match(st)
                if m is not None:
                    form, call, target = m
                    helper = _helper_for(repo, finfo, call, keep)
                    if helper is not None:
                        store_after = None
                        if form == "assign" and not isinstance(target, str):
                            # `self.a = self._h(...)`: the helper's result goes through a fresh local and is stored once,
                            # after the block - not once per return (and once for the default) inside it
                            tmp = f"_r{st.lineno}_{st.col_offset}"
                            while tmp in locals_:
                                tmp += "_"
                            store_after = ast.copy_location(ast.Assign(targets=[copy.deepcopy(target)], value=ast.Name(id=tmp, ctx=ast.Load())), st)
                            ast.fix_missing_locations(store_after)
                            target = tmp
                        block = _build_block(helper, call, form, target, locals_)
                        if block is not None:
                            out.append(block)
                            if store_after is not None:
                                out.append(store_after)
                            used.append(helper)
                            changed = True
                            continue
                for field in ("body", "orelse", "finalbody"):
                    sub = getattr(st, field, None)
                    if isinstance(sub, list) and sub and isinstance(sub[0], ast.stmt):
                        setattr(st, field, rewrite(sub))
                if isinstance(st, ast.Try):
                    for h in st.handlers:
                        h.body = rewrite(h.body)
                out.append(st)
            return out

        candidate = _copy_node(fn)
        if pre is not None and pre(candidate):
            changed = True
        candidate.body = rewrite(candidate.body)
        if _expr_pass(repo, finfo, candidate, keep, used):
            changed = True
        if not changed:
            break
        fn = candidate
    return fn, used


def expanded(ctx, finfo, keep=()):
    """Function node for analysis; the inlined helpers are recorded as analysed."""
    fn, used = expand(ctx.repo, finfo, keep)
    for h in used:
        ctx.touch(h)
    return fn
