"""Static analysis machinery for the secsgem properties C01-C20.

Nothing in this package imports or executes secsgem; every verdict is derived
from the source text under the repository root (default /repo).
"""
