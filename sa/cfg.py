"""Engine B: statement-level control-flow graph for one function, with dominator,
post-dominator, avoid-reachability and path-count queries.

Node kinds
    entry / exit (normal return or fall-through) / raise (exception leaves the function)
    stmt   simple statement (Assign, Expr, Return, Raise, Pass, Delete, Assert, ...)
    test   the condition of an If / While (node.ast is the test expression)
    iter   the header of a For (node.ast is the For; calls = those of the iterable)
    with   the header of a With
    handler  entry of an except clause (node.ast is the ExceptHandler)

Exceptions: an explicit `raise` goes to the innermost matching-by-position handler
(all handlers of the innermost enclosing try, conservatively) or to `raise`.
Inside a try body every node that contains a call, a raise, a subscript or an
attribute access additionally gets an edge to each handler of that try (so that
handler code is reachable); outside any try, calls are assumed to return
normally - the rules that care about raising callees ask Engine C explicitly.
"""

from __future__ import annotations

import ast

from .model import AnalysisError, calls_in, call_name, norm, walk_no_nested


class Node:
    __slots__ = ("id", "kind", "ast", "succ", "pred", "label", "in_try", "loops")

    def __init__(self, nid, kind, node=None):
        self.id = nid
        self.kind = kind
        self.ast = node
        self.succ: list[tuple[Node, str]] = []
        self.pred: list[Node] = []
        self.label = ""
        self.in_try = 0
        self.loops: tuple = ()

    # the part of the AST that is evaluated *at this node*
    @property
    def expr_part(self):
        n = self.ast
        if self.kind == "test":
            return n
        if self.kind == "iter":
            return n.iter
        if self.kind == "with":
            return [item.context_expr for item in n.items]
        if self.kind == "handler":
            return None
        return n

    @property
    def calls(self) -> list[ast.Call]:
        part = self.expr_part
        if part is None:
            return []
        if isinstance(part, list):
            out = []
            for p in part:
                out.extend(calls_in(p))
            return out
        return calls_in(part)

    def call_names(self) -> list[str]:
        return [call_name(c) or "" for c in self.calls]

    @property
    def lineno(self):
        return getattr(self.ast, "lineno", 0)

    def text(self) -> str:
        if self.ast is None:
            return self.kind
        if self.kind == "iter":
            return f"for {norm(self.ast.target)} in {norm(self.ast.iter)}"
        if self.kind == "with":
            return "with " + ", ".join(norm(i.context_expr) for i in self.ast.items)
        if self.kind == "handler":
            return "except " + (norm(self.ast.type) if self.ast.type else "")
        return norm(self.ast)

    def __repr__(self):
        return f"<{self.id}:{self.kind}@{self.lineno} {self.text()[:50]}>"


def _may_raise_syntactically(part) -> bool:
    if part is None:
        return False
    parts = part if isinstance(part, list) else [part]
    for p in parts:
        for n in walk_no_nested(p):
            if isinstance(n, (ast.Call, ast.Raise, ast.Subscript, ast.Attribute, ast.BinOp, ast.Assert)):
                return True
    return False


class CFG:
    def __init__(self, func: ast.FunctionDef):
        self.func = func
        self.nodes: list[Node] = []
        self.entry = self._new("entry")
        self.exit = self._new("exit")
        self.raise_exit = self._new("raise")
        self._loop_stack: list[tuple[Node, list[Node]]] = []  # (continue target, break sources)
        self._try_stack: list[list[Node]] = []  # handler entry nodes per enclosing try
        self._finally_stack: list[Node] = []
        self._block_stack: list[list[Node]] = []
        ends = self._body(func.body, [self.entry])
        for n in ends:
            self._edge(n, self.exit, "fall")
        self._dom = None
        self._pdom = None

    # ------------------------------------------------------------------ construction
    def _new(self, kind, node=None) -> Node:
        n = Node(len(self.nodes), kind, node)
        n.in_try = len(self._try_stack) if hasattr(self, "_try_stack") else 0
        n.loops = tuple(id(t[0]) for t in self._loop_stack) if hasattr(self, "_loop_stack") else ()
        self.nodes.append(n)
        return n

    def _edge(self, a: Node, b: Node, label=""):
        if all(s is not b or l != label for s, l in a.succ):
            a.succ.append((b, label))
            b.pred.append(a)

    def _exc_edges(self, n: Node):
        """Exceptional successors of node n if it raises."""
        if self._try_stack:
            for h in self._try_stack[-1]:
                self._edge(n, h, "exc")
        else:
            self._edge(n, self.raise_exit, "exc")

    def _body(self, stmts, preds: list[Node]) -> list[Node]:
        for st in stmts:
            preds = self._stmt(st, preds)
        return preds

    def _link(self, preds, node):
        for p in preds:
            self._edge(p, node, "")

    def _stmt(self, st, preds: list[Node]) -> list[Node]:
        if isinstance(st, ast.If):
            t = self._new("test", st.test)
            t.label = "if"
            self._link(preds, t)
            self._maybe_exc(t)
            then_first = self._marker(t, "true")
            then_ends = self._body(st.body, [then_first])
            else_first = self._marker(t, "false")
            else_ends = self._body(st.orelse, [else_first]) if st.orelse else [else_first]
            return then_ends + else_ends
        if isinstance(st, ast.While):
            t = self._new("test", st.test)
            t.label = "while"
            self._link(preds, t)
            self._maybe_exc(t)
            breaks: list[Node] = []
            self._loop_stack.append((t, breaks))
            body_first = self._marker(t, "true")
            body_ends = self._body(st.body, [body_first])
            self._loop_stack.pop()
            for e in body_ends:
                self._edge(e, t, "back")
            const_true = isinstance(st.test, ast.Constant) and bool(st.test.value)
            outs = []
            if not const_true:
                false_first = self._marker(t, "false")
                outs = self._body(st.orelse, [false_first]) if st.orelse else [false_first]
            return outs + breaks
        if isinstance(st, (ast.For, ast.AsyncFor)):
            it = self._new("iter", st)
            self._link(preds, it)
            self._maybe_exc(it)
            breaks = []
            self._loop_stack.append((it, breaks))
            body_first = self._marker(it, "true")
            body_ends = self._body(st.body, [body_first])
            self._loop_stack.pop()
            for e in body_ends:
                self._edge(e, it, "back")
            done = self._marker(it, "false")
            outs = self._body(st.orelse, [done]) if st.orelse else [done]
            return outs + breaks
        if isinstance(st, (ast.With, ast.AsyncWith)):
            w = self._new("with", st)
            self._link(preds, w)
            self._maybe_exc(w)
            return self._body(st.body, [w])
        if isinstance(st, ast.Try) or st.__class__.__name__ == "TryStar":
            return self._try(st, preds)
        if isinstance(st, ast.Match):
            raise AnalysisError("match statements are not supported by the CFG builder")
        if isinstance(st, ast.Expr) and isinstance(st.value, ast.Constant):
            return preds  # docstring / bare constant: no effect, not a node
        if st.__class__.__name__ == "InlineBlock":  # body of an inlined helper (sa.inline): LeaveBlock jumps to its end
            leaves: list[Node] = []
            self._block_stack.append(leaves)
            ends = self._body(st.body, preds)
            self._block_stack.pop()
            return ends + leaves
        if st.__class__.__name__ == "LeaveBlock":
            if not self._block_stack:
                raise AnalysisError("LeaveBlock outside an inlined helper")
            n = self._new("branch", None)
            n.label = "leave"
            self._link(preds, n)
            levels = getattr(st, "levels", 1)
            if levels > len(self._block_stack):
                raise AnalysisError("LeaveBlock leaves more inlined helpers than enclose it")
            self._block_stack[-levels].append(n)
            return []
        n = self._new("stmt", st)
        self._link(preds, n)
        if isinstance(st, ast.Return):
            if self._finally_stack:
                self._edge(n, self._finally_stack[-1], "return")
            else:
                self._edge(n, self.exit, "return")
            self._maybe_exc(n)
            return []
        if isinstance(st, ast.Raise):
            self._exc_edges(n)
            return []
        if isinstance(st, ast.Break):
            if not self._loop_stack:
                raise AnalysisError("break outside loop")
            self._loop_stack[-1][1].append(n)
            return []
        if isinstance(st, ast.Continue):
            if not self._loop_stack:
                raise AnalysisError("continue outside loop")
            self._edge(n, self._loop_stack[-1][0], "continue")
            return []
        self._maybe_exc(n)
        return [n]

    def _marker(self, src: Node, label: str) -> Node:
        """Empty node materialising a branch edge (keeps true/false edges distinct)."""
        m = self._new("branch", None)
        m.label = label
        m.ast = src.ast
        self._edge(src, m, label)
        return m

    def _maybe_exc(self, n: Node):
        if self._try_stack and _may_raise_syntactically(n.expr_part):
            for h in self._try_stack[-1]:
                self._edge(n, h, "exc")

    def _try(self, st, preds):
        handlers = [self._new("handler", h) for h in st.handlers]
        fin = None
        if st.finalbody:
            fin = self._new("branch", None)
            fin.label = "finally"
        # what an exception escaping the handlers (or an unhandled one) does
        catch_targets = list(handlers)
        if fin is not None and not handlers:
            catch_targets = [fin]
        self._try_stack.append(catch_targets if catch_targets else (self._try_stack[-1] if self._try_stack else [self.raise_exit]))
        if fin is not None:
            self._finally_stack.append(fin)
        body_ends = self._body(st.body, preds)
        self._try_stack.pop()
        else_ends = self._body(st.orelse, body_ends) if st.orelse else body_ends
        handler_ends = []
        # inside handlers, exceptions go outward (or to finally)
        if fin is not None:
            self._try_stack.append([fin])
        for hnode, h in zip(handlers, st.handlers):
            handler_ends += self._body(h.body, [hnode])
        if fin is not None:
            self._try_stack.pop()
            self._finally_stack.pop()
        outs = else_ends + handler_ends
        if fin is not None:
            for e in outs:
                self._edge(e, fin, "finally")
            fin_ends = self._body(st.finalbody, [fin])
            # after finally: continue normally, or re-raise / complete a return
            for e in fin_ends:
                self._edge(e, self._finally_stack[-1] if self._finally_stack else self.exit, "finally-return")
                if self._try_stack:
                    for h in self._try_stack[-1]:
                        self._edge(e, h, "exc")
                else:
                    self._edge(e, self.raise_exit, "exc")
            return fin_ends
        # a bare `except X` does not catch everything: unless some handler is broad the exception may continue outward
        broad = any(
            h.type is None or (norm(h.type) in ("Exception", "BaseException"))
            for h in st.handlers
        )
        if handlers and not broad:
            pass  # narrow handlers: escape is modelled by Engine C where it matters
        return outs

    # ------------------------------------------------------------------ queries
    def real_nodes(self):
        return [n for n in self.nodes if n.kind in ("stmt", "test", "iter", "with", "handler")]

    def find(self, pred) -> list[Node]:
        return [n for n in self.real_nodes() if pred(n)]

    def nodes_calling(self, *names, suffix=False) -> list[Node]:
        out = []
        for n in self.real_nodes():
            for c in n.call_names():
                if c in names or (suffix and any(c.endswith(x) for x in names)):
                    out.append(n)
                    break
        return out

    def reachable_from(self, src: Node, avoid=(), labels_excluded=()) -> set[int]:
        avoid_ids = {a.id for a in avoid}
        seen = set()
        stack = [src]
        while stack:
            cur = stack.pop()
            if cur.id in seen:
                continue
            seen.add(cur.id)
            for nxt, label in cur.succ:
                if nxt.id in avoid_ids or label in labels_excluded:
                    continue
                stack.append(nxt)
        return seen

    def path_exists(self, src: Node, dst: Node, avoid=(), no_exc=False) -> bool:
        """Is there a path src ->+ dst that avoids every node in `avoid` (src itself is allowed)?"""
        avoid_ids = {a.id for a in avoid}
        seen = set()
        stack = [s for s, l in src.succ if not (no_exc and l == "exc")]
        while stack:
            cur = stack.pop()
            if cur.id in seen or cur.id in avoid_ids:
                continue
            if cur is dst:
                return True
            seen.add(cur.id)
            stack.extend(s for s, l in cur.succ if not (no_exc and l == "exc"))
        return False

    def all_paths_pass(self, src: Node, dst: Node, through: list[Node], no_exc=False) -> bool:
        """Every path src ->+ dst contains a node of `through`."""
        return not self.path_exists(src, dst, avoid=through, no_exc=no_exc)

    def dominators(self) -> dict[int, set[int]]:
        if self._dom is None:
            self._dom = self._compute_dom(self.entry, lambda n: n.pred, lambda n: [s for s, _ in n.succ])
        return self._dom

    def postdominators(self) -> dict[int, set[int]]:
        """Post-dominators w.r.t. a virtual sink joining exit and raise."""
        if self._pdom is None:
            sink = Node(-1, "sink")
            exits = [self.exit, self.raise_exit]

            def preds(n):
                if n is sink:
                    return []
                out = [s for s, _ in n.succ]
                if n in exits:
                    out = out + [sink]
                return out

            def succs(n):
                if n is sink:
                    return exits
                return n.pred

            self._pdom = self._compute_dom(sink, preds, succs)
        return self._pdom

    def _compute_dom(self, root, preds_of, succs_of):
        # iterative dataflow on the nodes reachable from root
        order = []
        seen = set()
        stack = [root]
        while stack:
            cur = stack.pop()
            if cur.id in seen:
                continue
            seen.add(cur.id)
            order.append(cur)
            stack.extend(succs_of(cur))
        all_ids = {n.id for n in order}
        dom = {n.id: set(all_ids) for n in order}
        dom[root.id] = {root.id}
        changed = True
        while changed:
            changed = False
            for n in order:
                if n is root:
                    continue
                ps = [p for p in preds_of(n) if p.id in all_ids]
                new = set.intersection(*(dom[p.id] for p in ps)) if ps else set()
                new = new | {n.id}
                if new != dom[n.id]:
                    dom[n.id] = new
                    changed = True
        return dom

    def dominates(self, a: Node, b: Node) -> bool:
        d = self.dominators()
        return b.id in d and a.id in d[b.id]

    def postdominates(self, a: Node, b: Node) -> bool:
        d = self.postdominators()
        return b.id in d and a.id in d[b.id]

    def in_loop(self, n: Node) -> bool:
        """Node lies on a cycle."""
        return self.path_exists(n, n)

    def count_on_paths(self, pred, src: Node | None = None, dst=None, no_exc=False):
        """(min, max) number of nodes satisfying pred over all paths src -> dst.

        dst may be one node or a list of nodes; destinations are absorbing (a path ends at the first one it
        reaches).  max is inf if a matching node lies on a cycle that is on such a path.  With a list the result is
        {dst.id: (min, max)} for the destinations that are reachable.
        """
        src = src or self.entry
        single = not isinstance(dst, (list, tuple, set))
        dsts = [dst or self.exit] if single else list(dst)
        res = {}
        for d in dsts:
            others = [x for x in dsts if x is not d]
            r = self._count_one(pred, src, d, others, no_exc)
            if r[0] is not None:
                res[d.id] = r
        if single:
            return res.get(dsts[0].id, (None, None))
        return res

    def _count_one(self, pred, src, dst, absorbing, no_exc):
        INF = float("inf")
        stop = {a.id for a in absorbing} | {dst.id}
        byid = {n.id: n for n in self.nodes}

        def succs(n):
            if n.id in stop and n is not src:
                return []
            return [s for s, l in n.succ if not (no_exc and l == "exc")]

        # forward reachable from src
        fwd = set()
        stack = [src]
        first = True
        while stack:
            cur = stack.pop()
            if cur.id in fwd and not first:
                continue
            first = False
            fwd.add(cur.id)
            for s in succs(cur):
                if s.id not in fwd or s is src:
                    if s.id not in fwd:
                        stack.append(s)
        # backward: nodes that can reach dst
        can = {dst.id}
        changed = True
        while changed:
            changed = False
            for nid in fwd:
                if nid in can:
                    continue
                n = byid[nid]
                if n.id in stop and n is not src:
                    continue
                if any(s.id in can for s in succs(n)):
                    can.add(nid)
                    changed = True
        # src may equal dst (one loop iteration): then we need a non-empty path
        start_succ = [s for s in succs(src) if s.id in can]
        if not start_succ:
            return (None, None)
        live = (can & fwd) | {dst.id}
        w = {n.id: (1 if (n.kind in ("stmt", "test", "iter", "with", "handler") and pred(n)) else 0) for n in self.nodes}
        import heapq

        w_src = w[src.id]
        dist = {}
        heap = []
        for s in start_succ:
            d0 = w_src + w[s.id]
            if d0 < dist.get(s.id, INF):
                dist[s.id] = d0
                heapq.heappush(heap, (d0, s.id))
        while heap:
            d, nid = heapq.heappop(heap)
            if d > dist.get(nid, INF):
                continue
            if nid == dst.id:
                continue
            for s in succs(byid[nid]):
                if s.id not in live:
                    continue
                nd = d + w[s.id]
                if nd < dist.get(s.id, INF):
                    dist[s.id] = nd
                    heapq.heappush(heap, (nd, s.id))
        mn = dist.get(dst.id)
        if mn is None:
            return (None, None)
        # cycles (not through absorbing nodes) that contain a match => unbounded
        mx = 0
        for nid in live:
            n = byid[nid]
            if w[nid] and nid not in stop and self._on_cycle_within(n, live, stop, no_exc):
                mx = INF
                break
        if mx != INF:
            memo: dict[int, float] = {}
            onstack: set[int] = set()

            def longest(nid):
                if nid == dst.id:
                    return w[nid]
                if nid in memo:
                    return memo[nid]
                onstack.add(nid)
                best = -INF
                for s in succs(byid[nid]):
                    if s.id not in live or s.id in onstack:
                        continue
                    v = longest(s.id)
                    if v > best:
                        best = v
                onstack.discard(nid)
                val = best + w[nid] if best > -INF else -INF
                if not onstack & set():
                    memo[nid] = val
                return val

            best = -INF
            for s in start_succ:
                v = longest(s.id)
                if v > best:
                    best = v
            mx = best + w_src if best > -INF else None
        return (mn, mx)

    def _on_cycle_within(self, n, live, stop, no_exc):
        seen = set()
        stack = [s for s, l in n.succ if not (no_exc and l == "exc")]
        while stack:
            cur = stack.pop()
            if cur is n:
                return True
            if cur.id in seen or cur.id not in live or cur.id in stop:
                continue
            seen.add(cur.id)
            stack.extend(s for s, l in cur.succ if not (no_exc and l == "exc"))
        return False

    def loop_iteration_counts(self, head: Node, pred, no_exc=False):
        """Per-iteration (min, max) counts of pred-nodes for the loop whose header is `head`:
        paths from the loop's body entry to the next evaluation of the header, or to any way out of the function
        or of the loop.  Returns {"next": (mn,mx), "leave": (mn,mx)} (missing key = no such path)."""
        body = [s for s, l in head.succ if l == "true"]
        if not body:
            raise AnalysisError("loop header without body edge")
        leave = [s for s, l in head.succ if l == "false"]
        res = self.count_on_paths(pred, body[0], [head, self.exit, self.raise_exit] + leave, no_exc)
        out = {}
        if head.id in res:
            out["next"] = res[head.id]
        others = [v for k, v in res.items() if k != head.id]
        if others:
            out["leave"] = (min(v[0] for v in others), max(v[1] for v in others))
        return out

    # branch conditions under which a node executes (conjunction along *all* paths = dominating branch markers)
    def dominating_conditions(self, n: Node, derive: bool = False) -> list[tuple[ast.AST, bool]]:
        """[(test expr, truth)] for every If/While/For branch marker that dominates n; with derive also what follows
        from each (see _facts) - for rules that ask "is X known to hold here", not for rules that compare the list."""
        out = []
        dom = self.dominators().get(n.id, set())
        for m in self.nodes:
            if m.kind == "branch" and m.label in ("true", "false") and m.id in dom and m.ast is not None:
                if isinstance(m.ast, (ast.For, ast.AsyncFor)):
                    continue
                out.extend(_facts(m.ast, m.label == "true") if derive else [(m.ast, m.label == "true")])
        return out


def _facts(test: ast.AST, truth: bool):
    """The test itself plus what follows from it: `not X` == v gives X == not v; a true conjunction makes every conjunct
    true; a false disjunction makes every disjunct false."""
    yield test, truth
    if isinstance(test, ast.UnaryOp) and isinstance(test.op, ast.Not):
        yield from _facts(test.operand, not truth)
    elif isinstance(test, ast.BoolOp) and ((isinstance(test.op, ast.And) and truth) or (isinstance(test.op, ast.Or) and not truth)):
        for v in test.values:
            yield from _facts(v, truth)


def cfg_of(func_node) -> CFG:
    """CFG of a function, cached on the AST node itself (an id()-keyed cache would hand a stale graph to a new node that
    re-uses the address of a collected one when several trees are analysed in one process)."""
    cached = getattr(func_node, "_sa_cfg", None)
    if cached is None:
        cached = CFG(func_node)
        func_node._sa_cfg = cached
    return cached
