"""AST-computed single-point edits of anchored functions (thorough tier / developer tool).

For every function a property's checker analysed (the `analysed_functions` of its last run) it generates small edits of
the kinds that compile and typically pass a sample-based suite:

    cmp     flip a comparison operator (< <=, > >=, == !=, in / not in, is / is not)
    const   integer constant +-1, boolean constant negated (not in default arguments / docstrings)
    mask    change one bit of a hexadecimal/binary/octal mask or a shift amount
    del     delete an expression statement that is a call (a send, clear, set, notify, remove, resolve ...)
    swap    swap two adjacent simple statements
    boolop  and <-> or
    ret     return True <-> False / return <x> -> return None
    neg     negate an if-condition

Each edit is applied in memory (Repo overrides), the property check is run on the variant, and the outcome is one of
fired (violation reported), error (ANALYSIS-ERROR: the edit left the idiom table) or survived (check silent).
Survivors are not necessarily misses - many edits are equivalent or outside the property (log texts, messages) - they
are the list a human reads to find blind spots.  Nothing is executed; variants are only parsed.
"""

from __future__ import annotations

import ast
import copy
import json
import os
import random

from . import model, refmodels, report
from .model import AnalysisError

FLIP = {ast.Lt: ast.LtE, ast.LtE: ast.Lt, ast.Gt: ast.GtE, ast.GtE: ast.Gt, ast.Eq: ast.NotEq, ast.NotEq: ast.Eq, ast.In: ast.NotIn, ast.NotIn: ast.In, ast.Is: ast.IsNot, ast.IsNot: ast.Is}


def _funcs_of(module_tree):
    for node in ast.walk(module_tree):
        if isinstance(node, (ast.FunctionDef, ast.AsyncFunctionDef)):
            yield node


def edits_for(func: ast.FunctionDef):
    """Yield (kind, description, mutator) where mutator(func_copy) performs the edit on a deep copy located by index."""
    nodes = list(ast.walk(func))
    for i, n in enumerate(nodes):
        if isinstance(n, ast.Compare) and len(n.ops) == 1 and type(n.ops[0]) in FLIP:
            yield ("cmp", f"`{ast.unparse(n)}`: {type(n.ops[0]).__name__} -> {FLIP[type(n.ops[0])].__name__}", ("cmp", i))
        if isinstance(n, ast.Constant) and isinstance(n.value, bool):
            yield ("const", f"constant {n.value} -> {not n.value} (line {getattr(n, 'lineno', '?')})", ("bool", i))
        elif isinstance(n, ast.Constant) and isinstance(n.value, int) and not isinstance(n.value, bool):
            yield ("const", f"constant {n.value} -> {n.value + 1} (line {getattr(n, 'lineno', '?')})", ("int", i, 1))
            if n.value > 0:
                yield ("const", f"constant {n.value} -> {n.value - 1} (line {getattr(n, 'lineno', '?')})", ("int", i, -1))
            if n.value > 3 and (n.value & (n.value - 1) != 0 or n.value >= 64):
                yield ("mask", f"mask {hex(n.value)} -> {hex(n.value ^ (1 << (n.value.bit_length() - 1)))}", ("xor", i, 1 << (n.value.bit_length() - 1)))
        if isinstance(n, ast.BoolOp):
            yield ("boolop", f"`{ast.unparse(n)[:60]}`: {type(n.op).__name__} flipped", ("boolop", i))
        if isinstance(n, ast.If):
            yield ("neg", f"if `{ast.unparse(n.test)[:60]}` negated", ("neg", i))
        if isinstance(n, ast.Return) and isinstance(n.value, ast.Constant) and isinstance(n.value.value, bool):
            pass  # covered by const
        elif isinstance(n, ast.Return) and n.value is not None and not isinstance(n.value, ast.Constant):
            yield ("ret", f"`{ast.unparse(n)[:60]}` -> return None", ("retnone", i))
    # statement lists
    for i, n in enumerate(nodes):
        for field in ("body", "orelse", "finalbody"):
            body = getattr(n, field, None)
            if not isinstance(body, list) or not body or not isinstance(body[0], ast.stmt):
                continue
            for j, st in enumerate(body):
                if isinstance(st, ast.Expr) and isinstance(st.value, ast.Call) and len(body) > 1:
                    yield ("del", f"delete `{ast.unparse(st)[:70]}`", ("del", i, field, j))
                if j + 1 < len(body) and all(isinstance(x, (ast.Expr, ast.Assign, ast.AugAssign)) for x in (st, body[j + 1])) and not (isinstance(st, ast.Expr) and isinstance(st.value, ast.Constant)):
                    yield ("swap", f"swap `{ast.unparse(st)[:40]}` <-> `{ast.unparse(body[j + 1])[:40]}`", ("swap", i, field, j))


def apply_edit(func_copy: ast.FunctionDef, spec):
    nodes = list(ast.walk(func_copy))
    kind = spec[0]
    if kind == "cmp":
        n = nodes[spec[1]]
        n.ops[0] = FLIP[type(n.ops[0])]()
    elif kind == "bool":
        nodes[spec[1]].value = not nodes[spec[1]].value
    elif kind == "int":
        nodes[spec[1]].value = nodes[spec[1]].value + spec[2]
    elif kind == "xor":
        nodes[spec[1]].value = nodes[spec[1]].value ^ spec[2]
    elif kind == "boolop":
        n = nodes[spec[1]]
        n.op = ast.Or() if isinstance(n.op, ast.And) else ast.And()
    elif kind == "neg":
        n = nodes[spec[1]]
        n.test = ast.UnaryOp(op=ast.Not(), operand=n.test)
    elif kind == "retnone":
        nodes[spec[1]].value = ast.Constant(value=None)
    elif kind == "del":
        body = getattr(nodes[spec[1]], spec[2])
        del body[spec[3]]
    elif kind == "swap":
        body = getattr(nodes[spec[1]], spec[2])
        body[spec[3]], body[spec[3] + 1] = body[spec[3] + 1], body[spec[3]]
    ast.fix_missing_locations(func_copy)


def mutants_of_function(repo, finfo):
    """Yield (description, {relpath: new source}) for every edit of one function."""
    mod = finfo.module
    rel = os.path.relpath(mod.path, repo.root)
    lines = mod.source.split("\n")
    fn = finfo.node
    start = (fn.decorator_list[0].lineno if fn.decorator_list else fn.lineno) - 1
    end = fn.end_lineno
    indent = len(lines[fn.lineno - 1]) - len(lines[fn.lineno - 1].lstrip())
    for kind, desc, spec in edits_for(fn):
        cp = copy.deepcopy(fn)
        try:
            apply_edit(cp, spec)
            text = ast.unparse(cp)
        except Exception:
            continue
        new_func = "\n".join((" " * indent + l) if l else l for l in text.split("\n"))
        new_src = "\n".join(lines[:start] + [new_func] + lines[end:])
        try:
            ast.parse(new_src)
        except SyntaxError:
            continue
        yield kind, f"{finfo.qualname}: {desc}", {rel: new_src}


def run_property(prop: str, mod, functions: list[str], limit: int, seed: int):
    base = model.load_repo(model.REPO_ROOT)
    known = [e for e in report.load_known(prop) if e.get("status") == "known"]
    by_q = {f.qualname: f for f in base.functions}
    pool = []
    for q in functions:
        f = by_q.get(q)
        if f is None or f.name in ("__repr__", "__str__"):
            continue
        pool.extend(mutants_of_function(base, f))
    rnd = random.Random(seed)
    if limit and len(pool) > limit:
        pool = rnd.sample(pool, limit)
    res = {"fired": 0, "error": 0, "survived": 0, "by_kind": {}, "survivors": []}
    for kind, desc, overrides in pool:
        try:
            repo = model.Repo(model.REPO_ROOT, overrides=overrides, share=base)
            ctx = report.Ctx(prop, "thorough", seed, repo)
            report.run_rules(ctx, mod)
            failing = [o for o in ctx.obligations if not o["ok"] and not any(report.matches(e, o) for e in known)]
            outcome = "fired" if failing else "survived"
        except AnalysisError:
            outcome = "error"
        except Exception:
            outcome = "error"
        res[outcome] += 1
        k = res["by_kind"].setdefault(kind, {"fired": 0, "error": 0, "survived": 0})
        k[outcome] += 1
        if outcome == "survived":
            res["survivors"].append(desc)
    res["generated"] = len(pool)
    return res


def main():
    import importlib
    import sys

    prop = sys.argv[1].upper()
    limit = int(sys.argv[2]) if len(sys.argv) > 2 else 0
    mod = importlib.import_module(f"sa.props.{prop.lower()}")
    ev = json.load(open(os.path.join(report.VERIF, "evidence", f"{prop}.json")))
    funcs = ev["coverage"]["analysed_functions"]
    res = run_property(prop, mod, funcs, limit, 0)
    print(json.dumps({k: v for k, v in res.items() if k != "survivors"}, indent=1))
    for s in res["survivors"]:
        print("SURVIVED", s)


# ----------------------------------------------------------------------------------------------- function-centric run
def _worker(args):
    qualname, kind, desc, overrides, props = args
    import importlib

    base = model.load_repo(model.REPO_ROOT)
    outcome = "survived"
    by = []
    for prop in props:
        mod = importlib.import_module(f"sa.props.{prop.lower()}")
        known = [e for e in report.load_known(prop) if e.get("status") == "known"]
        try:
            repo = model.Repo(model.REPO_ROOT, overrides=overrides, share=base)
            ctx = report.Ctx(prop, "thorough", 0, repo)
            report.run_rules(ctx, mod)
            failing = [o for o in ctx.obligations if not o["ok"] and not any(report.matches(e, o) for e in known)]
            if failing:
                outcome = "fired"
                by.append(prop)
        except Exception:
            if outcome != "fired":
                outcome = "error"
            by.append(prop + "?")
    return qualname, kind, desc, outcome, by


def main_all():
    """Every analysed function x every single-point edit x every property that analyses the function."""
    import concurrent.futures as cf
    import sys

    limit = int(sys.argv[2]) if len(sys.argv) > 2 else 0
    base = model.load_repo(model.REPO_ROOT)
    by_q = {f.qualname: f for f in base.functions}
    touched: dict[str, list[str]] = {}
    for i in range(1, 21):
        prop = f"C{i:02d}"
        ev = json.load(open(os.path.join(report.VERIF, "evidence", f"{prop}.json")))
        for q in ev["coverage"]["analysed_functions"]:
            touched.setdefault(q, []).append(prop)
    jobs = []
    rnd = random.Random(0)
    for q, props in sorted(touched.items()):
        f = by_q.get(q)
        if f is None or f.name in ("__repr__", "__str__") or not f.module.name.startswith("secsgem"):
            continue
        ms = [m for m in mutants_of_function(base, f) if m[0] != "swap"]
        if limit and len(ms) > limit:
            ms = rnd.sample(ms, limit)
        for kind, desc, overrides in ms:
            jobs.append((q, kind, desc, overrides, props))
    print(f"{len(jobs)} mutants of {len(touched)} functions", file=sys.stderr)
    res = {"fired": 0, "error": 0, "survived": 0}
    with cf.ProcessPoolExecutor(max_workers=14) as ex:
        for q, kind, desc, outcome, by in ex.map(_worker, jobs, chunksize=4):
            res[outcome] += 1
            print(f"{outcome.upper():8s} {','.join(by):20s} {desc}")
    print(json.dumps(res))


if __name__ == "__main__":
    import sys as _sys

    if len(_sys.argv) > 1 and _sys.argv[1] == "ALL":
        main_all()
    else:
        main()
