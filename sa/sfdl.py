"""Independent reader of the Secs Function Definition Language as documented in docs/firststeps/sfdl.md
(used as oracle for the shipped catalogue; it shares no code with secsgem's tokenizer).

Grammar:   item := '<' NAME '>'      list := '<' 'L' [NAME] element* '>'      comment := '#' ... end of line
Documented mapping: a list with exactly one element is an open list (array of that element), a list with several
elements is a fixed list (record keyed by member names).  Member keys: a data item -> its name; a nested list with an
explicit name -> that name; an unnamed nested open list whose single element is a data item -> that item's name; any
other unnamed nested list -> 'DATA'.
"""

from __future__ import annotations


class SfdlError(Exception):
    pass


def tokenize(text: str) -> list[str]:
    out = []
    cur = ""
    in_comment = False
    for ch in text:
        if in_comment:
            if ch in "\n\r":
                in_comment = False
            continue
        if ch == "#":
            if cur:
                out.append(cur)
                cur = ""
            in_comment = True
            continue
        if ch in "<>":
            if cur:
                out.append(cur)
                cur = ""
            out.append(ch)
        elif ch.isspace():
            if cur:
                out.append(cur)
                cur = ""
        else:
            cur += ch
    if cur:
        out.append(cur)
    return out


def parse(text: str):
    toks = tokenize(text)
    pos = 0

    def element():
        nonlocal pos
        if pos >= len(toks) or toks[pos] != "<":
            raise SfdlError(f"'<' expected at token {pos}")
        pos += 1
        if pos >= len(toks):
            raise SfdlError("item expected")
        name = toks[pos]
        pos += 1
        if name in "<>":
            raise SfdlError("item name expected")
        if name != "L":
            if pos >= len(toks) or toks[pos] != ">":
                raise SfdlError(f"'>' expected after {name}")
            pos += 1
            return ("item", name)
        lname = None
        if pos < len(toks) and toks[pos] not in "<>":
            lname = toks[pos]
            pos += 1
        children = []
        while True:
            if pos >= len(toks):
                raise SfdlError("missing closing '>'")
            if toks[pos] == ">":
                pos += 1
                return ("list", lname, children)
            children.append(element())

    tree = element()
    if pos != len(toks):
        raise SfdlError("trailing tokens")
    return tree


def items_of(tree) -> list[str]:
    if tree[0] == "item":
        return [tree[1]]
    out = []
    for c in tree[2]:
        out.extend(items_of(c))
    return out


def documented_shape(tree):
    """('item', NAME) | ('array', name, element shape) | ('record', name, [(key, member shape)])"""
    if tree[0] == "item":
        return tree
    _, name, children = tree
    if len(children) == 1:
        return ("array", name, documented_shape(children[0]))
    return ("record", name, [(member_key(c), documented_shape(c)) for c in children])


def member_key(child) -> str:
    if child[0] == "item":
        return child[1]
    _, name, kids = child
    if name:
        return name
    if len(kids) == 1 and kids[0][0] == "item":
        return kids[0][1]
    return "DATA"


def walk_lists(tree):
    if tree[0] == "list":
        yield tree
        for c in tree[2]:
            yield from walk_lists(c)
