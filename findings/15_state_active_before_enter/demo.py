"""Demo for ad02953: a state must be marked active before its enter handlers run.

Contract: State.active tells whether the machine is in that state. In a flat
state machine (no parent states) exactly one state - the current one - is active.
Enter handlers may chain further transitions (ControlStateMachine does:
INIT -> CONTROL -> OFFLINE -> ATTEMPT_ONLINE inside start()).
"""
import os
import sys

sys.path.insert(0, os.getcwd())  # run from the root of the tree under test: cwd must win over the installed secsgem

import secsgem  # noqa: E402
from secsgem.gem.control_state_machine import ControlStateMachine  # noqa: E402

print("secsgem from", secsgem.__file__)

problems = []

for initial, online in (("ATTEMPT_ONLINE", "REMOTE"), ("ONLINE", "LOCAL"), ("HOST_OFFLINE", "REMOTE")):
    machine = ControlStateMachine(initial, online)
    states = [
        machine.init,
        machine.control,
        machine.offline,
        machine.equipment_offline,
        machine.attempt_online,
        machine.host_offline,
        machine.online,
        machine.online_local,
        machine.online_remote,
    ]
    machine.start()
    active = [state.name for state in states if state.active]
    current = machine.current_state.name
    print(f"ControlStateMachine({initial!r}, {online!r}).start(): current={current} active={active}")
    if active != [current]:
        problems.append(f"initial={initial}: current state is {current} but active states are {active}")

if problems:
    print("FAIL: states that were already left again are still marked active")
    for problem in problems:
        print("  observed:", problem)
    sys.exit(1)

print("PASS: only the current state is active after chained enter handlers")
sys.exit(0)
