"""Demo for b436957: HsmsProtocol must enter NOT SELECTED before its receive threads start.

History: the TCP connection starts its socket receiver thread *before* it fires
on_connected (tcp_server_connection.py / tcp_client_connection.py), so a Select.req
the peer sent right after the TCP connect can already be in the protocol's receive
buffer when HsmsProtocol._on_connected runs.

Unfixed _on_connected:   self._thread.start()  ;  self._connection_state.connect()
If the started dispatcher handles the buffered Select.req between those two
statements, it answers Select.rsp (status 0 = accepted) and then
connection_state.select() raises WrongSourceStateError because the state still is
NOT_CONNECTED. Afterwards connect() moves to NOT_SELECTED: the peer was told it is
selected, we are not, and every data message it sends is rejected.

The interleaving is forced, not raced: connection_state.connect is wrapped so that,
IF the dispatcher threads are already running when it is called, it first waits
until the buffered Select.req has been dispatched (a slow scheduler). No library
logic is altered. On the fixed tree connect() is called before the threads exist,
so the wrapper does not wait at all.
"""
import logging
import os
import sys
import threading
import time

sys.path.insert(0, os.getcwd())  # run from the root of the tree under test: cwd must win over the installed secsgem
sys.path.insert(1, os.path.join(os.getcwd(), "tests"))

import secsgem  # noqa: E402
import secsgem.hsms  # noqa: E402
from mock_connection import MockHsmsConnection  # noqa: E402
from mock_settings import MockHsmsSettings  # noqa: E402

logging.disable(logging.CRITICAL)

print("secsgem from", secsgem.__file__)


class Connection(MockHsmsConnection):
    def send_data(self, data):
        super().send_data(data)
        return True


settings = MockHsmsSettings(
    secsgem.hsms.HsmsProtocol,
    Connection,
    connect_mode=secsgem.hsms.HsmsConnectMode.PASSIVE,
)
protocol = settings.create_protocol()
connection = settings.connection
protocol.enable()

trace = []
threads_started = threading.Event()
select_req_dispatched = threading.Event()

# observe: when are the protocol threads started?
orig_start = protocol._thread.start


def traced_start():
    trace.append("threads.start()")
    orig_start()
    threads_started.set()


protocol._thread.start = traced_start

# observe: when has the dispatcher finished with the Select.req?
orig_dispatch = protocol._thread._dispatcher_target


def traced_dispatch(source, block):
    trace.append(f"dispatch {block.header.s_type.text} in state {protocol.connection_state.current.name}")
    try:
        orig_dispatch(source, block)
    finally:
        select_req_dispatched.set()


protocol._thread._dispatcher_target = traced_dispatch

# force the schedule: a thread switch between thread start and the connect transition
orig_connect = protocol.connection_state.connect


def slow_connect():
    if threads_started.is_set():
        select_req_dispatched.wait(5)  # let the already running dispatcher go first
    trace.append("connection_state.connect()")
    orig_connect()


protocol.connection_state.connect = slow_connect

# the peer's Select.req arrives with the TCP connect: it is in the buffer before on_connected fires
select_req = secsgem.hsms.HsmsMessage(secsgem.hsms.HsmsSelectReqHeader(0x77), b"")
for block in select_req.blocks:
    connection.on_data({"source": connection, "data": block.encode()})

connection.simulate_connect()

# let everything settle: the Select.req must have been dispatched by now
select_req_dispatched.wait(5)
end = time.monotonic() + 2
select_rsp = None
while time.monotonic() < end and select_rsp is None:
    select_rsp = next((b for b in connection._packets if b.header.s_type.value == 2 and b.header.system == 0x77), None)
    time.sleep(0.01)
time.sleep(0.1)

state = protocol.connection_state.current.name
for line in trace:
    print("  trace:", line)
print("Select.rsp sent to peer:", "yes, status", select_rsp.header.function if select_rsp else "no")
print("our connection state   :", state)

# afterwards the peer, which was told it is selected, sends a data message
rejected = None
if select_rsp is not None:
    connection.simulate_message(
        secsgem.hsms.HsmsMessage(secsgem.hsms.HsmsStreamFunctionHeader(0x78, 1, 1, True, 0), b"")
    )
    end = time.monotonic() + 1
    while time.monotonic() < end and rejected is None:
        rejected = next((b for b in connection._packets if b.header.s_type.value == 7 and b.header.system == 0x78), None)
        time.sleep(0.01)
    print("peer's S1F1 W afterwards:", "answered with Reject.req (not selected)" if rejected else "accepted")

protocol.disable()

if select_rsp is not None and select_rsp.header.function == 0 and state != "CONNECTED_SELECTED":
    print("FAIL: peer was sent Select.rsp(accepted) but our state is", state)
    print("  observed: Select.req was dispatched while NOT_CONNECTED (threads started before connect())")
    sys.exit(1)

if select_rsp is None or state != "CONNECTED_SELECTED" or rejected is not None:
    print("FAIL: unexpected outcome", select_rsp, state, rejected)
    sys.exit(1)

print("PASS: state was NOT_SELECTED before the Select.req was dispatched; both sides are SELECTED")
sys.exit(0)
