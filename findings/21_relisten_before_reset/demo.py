"""Demonstration of the known finding C09.P6 (not repaired): run from a checkout of the repository,
`cd <tree> && /venv/bin/python /verif/findings/21_relisten_before_reset/demo.py`.

A passive endpoint restarts its listener from the connection's own `on_disconnected` callback, which is registered
before the protocol's: the new listener runs while the protocol still handles the loss of the old link.  The schedule is
forced by holding the protocol's handler for 0.5 s (the preemption a loaded machine produces by itself): a peer that
reconnects at once is accepted, then the old link's handling resets the session under the new link."""
import os, sys, socket, struct, threading, time
sys.path.insert(0, os.getcwd())
import secsgem.hsms
from secsgem.hsms.protocol import HsmsProtocol

orig = HsmsProtocol._on_disconnected
def slow(self, data):
    time.sleep(0.5)            # the receiver thread is preempted between the two `on_disconnected` callbacks
    return orig(self, data)
HsmsProtocol._on_disconnected = slow

PORT = 5931
settings = secsgem.hsms.HsmsSettings(address="127.0.0.1", port=PORT, connect_mode=secsgem.hsms.HsmsConnectMode.PASSIVE)
proto = HsmsProtocol(settings)
proto.enable()
time.sleep(0.5)

def frame(stype, system, session=0xFFFF):
    return struct.pack(">LHBBBBL", 10, session, 0, 0, 0, stype, system)

def select(sock, system):
    sock.sendall(frame(1, system))
    sock.settimeout(3)
    try:
        data = sock.recv(14)
    except (socket.timeout, OSError):
        return None
    return data[9] if len(data) == 14 else None

a = socket.create_connection(("127.0.0.1", PORT)); r1 = select(a, 1)
a.close()                                   # peer closes ...
time.sleep(0.2)
b = None
for _ in range(20):                          # ... and reconnects at once
    try:
        b = socket.create_connection(("127.0.0.1", PORT), timeout=1); break
    except OSError:
        time.sleep(0.05)
time.sleep(1.0)                              # the old link's handling has finished by now
r2 = select(b, 2) if b else None
state = proto.connection_state.current.name if hasattr(proto, "connection_state") else proto._connection_state.current.name
ok = r1 == 2 and r2 == 2
print(("HOLDS" if ok else "VIOLATED") + f": first Select.req answered with SType {r1}; after close and immediate reconnect the Select.req was answered with {r2} (2 = Select.rsp), session state {state}")
try:
    b and b.close()
except OSError:
    pass
t = threading.Thread(target=proto.disable, daemon=True); t.start(); t.join(5)
os._exit(0 if ok else 1)
