"""Demo for d640011: an SML list is closed only by '>'.

Contract: Item.from_sml() accepts well-formed SML only. A list whose closing
bracket is missing is malformed and must be rejected with SMLParseError, it must
not be silently 'closed' by a '.' token.
"""
import os
import sys

sys.path.insert(0, os.getcwd())  # run from the root of the tree under test: cwd must win over the installed secsgem

import secsgem  # noqa: E402
from secsgem.secs.item import Item  # noqa: E402
from secsgem.secs.sml import SMLParseError  # noqa: E402

print("secsgem from", secsgem.__file__)

GOOD = '< L < L < A "inner" > > < A "outer" > >'
BAD = '< L < L < A "inner" > . < A "outer" > >'  # inner list has '.' where its '>' should be

good = Item.from_sml(GOOD)
print("well-formed  :", GOOD, "->", good.sml.replace("\n", " "))

try:
    bad = Item.from_sml(BAD)
except SMLParseError as exc:
    print("malformed    :", BAD, "-> SMLParseError:", str(exc).strip().splitlines()[-1])
    print("PASS: list with '.' instead of '>' is rejected")
    sys.exit(0)

print("malformed    :", BAD, "->", bad.sml.replace("\n", " "))
print("FAIL: malformed SML (missing list close) was accepted, '.' closed the list")
print(f"  observed: parsed to the same structure as the well-formed text: {bad.encode() == good.encode()}")
sys.exit(1)
