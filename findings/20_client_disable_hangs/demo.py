import sys, os, threading, time, socket
sys.path.insert(0, os.getcwd())
import secsgem.hsms
from secsgem.common.tcp_client_connection import TcpClientConnection

srv = socket.socket(); srv.setsockopt(socket.SOL_SOCKET, socket.SO_REUSEADDR, 1); srv.bind(("127.0.0.1", 5921)); srv.listen(1)
s = secsgem.hsms.HsmsSettings(address="127.0.0.1", port=5921, connect_mode=secsgem.hsms.HsmsConnectMode.ACTIVE)
c = TcpClientConnection(s)
c.on_connected.register(lambda data: time.sleep(1.5))      # a slow "connected" listener: the connect thread is alive, past its loop
c.enable()
time.sleep(0.5)
t = threading.Thread(target=c.disable, daemon=True); t.start(); t.join(6)
hung = t.is_alive()
print(("VIOLATED" if hung else "HOLDS") + f": disable() during the connected notification returned within 6 s: {not hung} (connect thread alive: {c.connection_thread.is_alive()}, stop flag: {c.stop_connection_thread})")
c.stop_connection_thread = False
sys.exit(1 if hung else 0)
