"""Demonstration of the known finding C08.P1 abort-total (not repaired): run from a checkout of the repository,
`cd <tree> && /venv/bin/python /verif/findings/18_abort_lookup_uncatalogued/demo.py` - prints VIOLATED (exit 1) while the abort lookup can raise."""
import sys, os
sys.path.insert(0, os.getcwd()); sys.path.insert(0, os.path.join(os.getcwd(), "tests"))
import secsgem.secs, secsgem.hsms, secsgem.common
from mock_protocol import MockProtocol
from mock_settings import MockSettings
from secsgem.secs.functions.base import SecsStreamFunction

class SecsS64F01(SecsStreamFunction):
    _stream = 64; _function = 1; _data_format = None; _to_host = True; _to_equipment = True; _has_reply = True; _is_reply_required = True; _is_multi_block = False
class SecsS64F02(SecsStreamFunction):
    _stream = 64; _function = 2; _data_format = None; _to_host = True; _to_equipment = True; _has_reply = False; _is_reply_required = False; _is_multi_block = False

settings = MockSettings(MockProtocol)
settings.streams_functions.update(SecsS64F01); settings.streams_functions.update(SecsS64F02)
h = secsgem.secs.SecsHandler(settings)
def cb(handler, message):
    raise RuntimeError("application error")
h.register_stream_function(64, 1, cb)
h.enable()
settings.protocol.simulate_connect()
pkt = settings.protocol.create_message_for_function(SecsS64F01(), 0x4242)
try:
    settings.protocol.simulate_message(pkt)
except Exception as e:
    print("escaped:", type(e).__name__, e)
import time; time.sleep(0.3)
msgs=[(m.header.stream,m.header.function,hex(m.header.system)) for m in settings.protocol.received_messages]
print(("VIOLATED" if not msgs else "HOLDS")+": S64F1 W (sys 0x4242) whose callback raises -> messages written:", msgs)
sys.exit(1 if not msgs else 0)
