import sys, os, threading, time, logging
sys.path.insert(0, os.getcwd())
import secsgem.common, secsgem.hsms
from secsgem.common.tcp_server_connection import TcpServerConnection

hung = 0; died = 0
for i in range(6):
    s = secsgem.hsms.HsmsSettings(address="127.0.0.1", port=5900 + i, connect_mode=secsgem.hsms.HsmsConnectMode.PASSIVE)
    c = TcpServerConnection(s)
    c.enable()
    time.sleep(0.5)   # the listener is now blocked in select
    t = threading.Thread(target=c.disable, daemon=True); t.start(); t.join(4)
    alive = c._server_thread.is_alive()
    if t.is_alive():
        hung += 1
        if not alive: died += 1
        c._stop_server_thread = False  # let the stuck disable() go
        t.join(2)
print(("VIOLATED" if hung else "HOLDS") + f": disable() of an idle passive endpoint did not return within 4 s in {hung} of 6 trials (listener thread dead with the stop flag still raised in {died})")
sys.exit(1 if hung else 0)
