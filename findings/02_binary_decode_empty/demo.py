"""Demo for 37e2a48: Binary.decode of a zero-length item must store the empty value.

Contract: after obj.decode(wire) the object holds exactly the value that is on
the wire. A zero-length B item (header 0x21 0x00) is the empty byte string.
"""
import os
import sys

sys.path.insert(0, os.getcwd())  # run from the root of the tree under test: cwd must win over the installed secsgem

import secsgem  # noqa: E402
from secsgem.secs.variables import Binary

print("secsgem from", secsgem.__file__)

EMPTY_B = b"\x21\x00"  # format code B (0o10 << 2 | 1 length byte), length 0

var = Binary(b"\x01\x02")
print("before decode:", var.get())
end = var.decode(EMPTY_B)
observed = var.get()
print("after decode of", EMPTY_B.hex(), "-> value", repr(observed), "end pos", end)

reencoded = var.encode()
print("re-encoded:", reencoded.hex())

if observed != b"" or reencoded != EMPTY_B:
    print("FAIL: Binary.decode(zero-length item) kept the previous value")
    print(f"  observed: get() == {observed!r}, encode() == {reencoded.hex()} (expected b'' / 2100)")
    sys.exit(1)

print("PASS: Binary.decode(zero-length item) stores b''")
sys.exit(0)
