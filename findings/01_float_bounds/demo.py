"""Demo for 2dcdd33: F4/F8 bounds must be the exact largest finite binary32/binary64 values.

Contract: whatever a variable/item accepts and encodes must be decodable by the
same class (encode/decode round trip), and every finite IEEE value that fits the
wire format (in particular FLT_MAX / DBL_MAX) is a legal F4 / F8 value.
"""
import struct
import os
import sys

sys.path.insert(0, os.getcwd())  # run from the root of the tree under test: cwd must win over the installed secsgem

import secsgem  # noqa: E402
from secsgem.secs.item_number import ItemF4, ItemF8
from secsgem.secs.variables import F4, F8

FLT_MAX = struct.unpack(">f", b"\x7f\x7f\xff\xff")[0]  # 3.4028234663852886e38
DBL_MAX = sys.float_info.max  # 1.7976931348623157e308
FLT_MAX_WIRE = b"\x91\x04\x7f\x7f\xff\xff"
DBL_MAX_WIRE = b"\x81\x08\x7f\xef\xff\xff\xff\xff\xff\xff"

problems = []


def check(label, func):
    try:
        result = func()
    except Exception as exc:  # noqa: BLE001
        problems.append(f"{label}: raised {type(exc).__name__}: {exc}")
        return None
    print(f"  ok   {label} -> {result!r}")
    return result


def roundtrip_var(cls, value):
    encoded = cls(value).encode()  # accepted by the constructor
    other = cls()
    other.decode(encoded)  # must be decodable by the same class
    return other.get()


def decode_var(cls, wire):
    obj = cls()
    obj.decode(wire)
    return obj.get()


print("secsgem from", secsgem.__file__)

# (a) a value accepted by the old bound encodes to bytes the same class rejects on decode
check("F4(3.40282e38) encode->decode round trip", lambda: roundtrip_var(F4, 3.40282e38))
check("ItemF4(3.40282e38) encode->decode round trip", lambda: ItemF4.decode(ItemF4(3.40282e38).encode()).value)

# (b) the largest finite values are legal values / legal wire encodings
check("F4(FLT_MAX)", lambda: F4(FLT_MAX).get())
check("F4().decode(wire FLT_MAX)", lambda: decode_var(F4, FLT_MAX_WIRE))
check("F4(-FLT_MAX)", lambda: F4(-FLT_MAX).get())
check("ItemF4(FLT_MAX)", lambda: ItemF4(FLT_MAX).value)
check("ItemF4.decode(wire FLT_MAX)", lambda: ItemF4.decode(FLT_MAX_WIRE).value)
check("F8(DBL_MAX)", lambda: F8(DBL_MAX).get())
check("F8().decode(wire DBL_MAX)", lambda: decode_var(F8, DBL_MAX_WIRE))
check("F8(-DBL_MAX)", lambda: F8(-DBL_MAX).get())
check("ItemF8(DBL_MAX)", lambda: ItemF8(DBL_MAX).value)
check("ItemF8.decode(wire DBL_MAX)", lambda: ItemF8.decode(DBL_MAX_WIRE).value)

if problems:
    print("FAIL: F4/F8 bounds are not the exact binary32/binary64 limits")
    for problem in problems:
        print("  observed:", problem)
    sys.exit(1)

print("PASS: F4/F8 accept and round-trip everything up to FLT_MAX / DBL_MAX")
sys.exit(0)
