"""Demo for 6b465bb: a reconnect must not start a second dispatcher thread.

Contract: received blocks are handed to the protocol by ONE dispatcher thread, in
arrival order, one at a time (multi-block assembly, state transitions and handler
callbacks rely on that).

History: connect -> disconnect -> connect. HsmsProtocol._on_connected calls
ProtocolDispatcher.start(), _on_disconnected calls stop(). stop() only ends the
receiver thread; the unfixed start() nevertheless creates a new dispatcher thread
each time, so after one reconnect two threads drain the same dispatch queue.

Part 1 counts the live dispatcher threads after the reconnect.
Part 2 shows the consequence: while the handler of block #1 is still running,
block #2 is queued; with two dispatcher threads #2 is handled concurrently (it
overtakes #1), with one thread it waits for #1.
"""
import logging
import os
import sys
import threading
import time

sys.path.insert(0, os.getcwd())  # run from the root of the tree under test: cwd must win over the installed secsgem
sys.path.insert(1, os.path.join(os.getcwd(), "tests"))

import secsgem  # noqa: E402
import secsgem.hsms  # noqa: E402
from mock_connection import MockHsmsConnection  # noqa: E402
from mock_settings import MockHsmsSettings  # noqa: E402

logging.disable(logging.CRITICAL)

print("secsgem from", secsgem.__file__)

settings = MockHsmsSettings(
    secsgem.hsms.HsmsProtocol,
    MockHsmsConnection,
    connect_mode=secsgem.hsms.HsmsConnectMode.PASSIVE,
)
protocol = settings.create_protocol()
connection = settings.connection
dispatcher_name = settings.generate_thread_name("protocol_dispatcher")
receiver_name = settings.generate_thread_name("protocol_receiver")


def live(name):
    return [thread for thread in threading.enumerate() if thread.name == name and thread.is_alive()]


protocol.enable()

# ---- part 1: connect / disconnect / connect -------------------------------------------
connection.simulate_connect()
time.sleep(0.1)
print(f"after 1st connect : dispatcher threads={len(live(dispatcher_name))} receiver threads={len(live(receiver_name))}")
connection.on_disconnected({"source": connection})
time.sleep(0.1)
print(f"after disconnect  : dispatcher threads={len(live(dispatcher_name))} receiver threads={len(live(receiver_name))}")
connection.simulate_connect()
time.sleep(0.1)
dispatchers = len(live(dispatcher_name))
print(f"after reconnect   : dispatcher threads={dispatchers} receiver threads={len(live(receiver_name))}")

# ---- part 2: ordering ------------------------------------------------------------------
events = []
thread_labels = {}
first_started = threading.Event()
second_started = threading.Event()
release_first = threading.Event()


def handler(_source, block):
    label = thread_labels.setdefault(threading.get_ident(), f"T{len(thread_labels) + 1}")
    events.append(f"start #{block.header.system} on dispatcher thread {label}")
    if block.header.system == 1:
        first_started.set()
        release_first.wait(5)  # a slow handler (e.g. a user callback)
    else:
        second_started.set()
    events.append(f"end   #{block.header.system}")


protocol._thread._dispatcher_target = handler


def block(system):
    return secsgem.hsms.HsmsMessage(secsgem.hsms.HsmsLinktestReqHeader(system), b"").blocks[0]


protocol._thread.queue_block(protocol, block(1))
assert first_started.wait(2), "block #1 was never dispatched"
protocol._thread.queue_block(protocol, block(2))
overtook = second_started.wait(1.0)  # does #2 start while #1 is still being handled?
release_first.set()
assert second_started.wait(2), "block #2 was never dispatched"
time.sleep(0.1)

for event in events:
    print("  ", event)
print("block #2 handled while #1 still in progress:", overtook)

protocol.disable()

problems = []
if dispatchers != 1:
    problems.append(f"{dispatchers} live dispatcher threads after one reconnect (expected 1)")
if overtook:
    problems.append("block #2 was dispatched concurrently with / before the end of block #1: " + " | ".join(events))

if problems:
    print("FAIL: more than one dispatcher thread drains the dispatch queue")
    for problem in problems:
        print("  observed:", problem)
    sys.exit(1)

print("PASS: one dispatcher thread after reconnect, blocks handled strictly one after the other")
sys.exit(0)
