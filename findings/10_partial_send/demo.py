"""Demo for f95ed8b: TcpConnection.send_data must send the whole buffer.

Contract: send_data(data) returns True only if `data` was written to the peer.
The socket is non-blocking; socket.send() may accept only a prefix and returns the
number of bytes taken. The unfixed code ignores that count, so a partial write is
reported as success and the tail of the HSMS block is lost (the peer then waits
for the rest of the length-prefixed message: stream desynchronised).

Part 1 (fake socket): TcpClientConnection._sock is a fake whose send() accepts at
        most 7 bytes per call; select.select is patched to report it writable.
Part 2 (real sockets): a loopback TCP pair, sender non-blocking with a tiny
        SO_SNDBUF, 128 KiB payload; the kernel accepts only part of it per send().
In both parts the bytes that reached the peer are compared with the bytes given
to send_data().
"""
import logging
import os
import socket
import sys
import threading

sys.path.insert(0, os.getcwd())  # run from the root of the tree under test: cwd must win over the installed secsgem

import secsgem  # noqa: E402
import secsgem.common.tcp_connection as tcp_connection_module  # noqa: E402
import secsgem.hsms  # noqa: E402

logging.disable(logging.CRITICAL)

print("secsgem from", secsgem.__file__)

settings = secsgem.hsms.HsmsSettings(
    address="127.0.0.1",
    port=5000,
    connect_mode=secsgem.hsms.HsmsConnectMode.ACTIVE,
)

problems = []

# ---------------------------------------------------------------------------- part 1
class FakeSocket:
    """Non-blocking socket stand-in: takes at most `chunk` bytes per send() call."""

    def __init__(self, chunk):
        self.chunk = chunk
        self.received = bytearray()
        self.calls = 0

    def send(self, data):
        self.calls += 1
        taken = bytes(data[: self.chunk])
        self.received += taken
        return len(taken)

    def fileno(self):  # pragma: no cover - not used, select is patched
        raise AssertionError("real select must not be used on the fake socket")


class FakeSelectModule:
    """Stands in for the `select` module inside tcp_connection: fake socket is always writable."""

    @staticmethod
    def select(rlist, wlist, xlist, timeout=None):  # noqa: ARG004
        return [], list(wlist), []


connection = settings.create_connection()
print("connection class:", type(connection).__name__, "send_data from", type(connection).send_data.__qualname__)
fake = FakeSocket(chunk=7)
connection._sock = fake

block = secsgem.hsms.HsmsMessage(
    secsgem.hsms.HsmsStreamFunctionHeader(0x1234, 1, 13, True, 0),
    secsgem.secs.functions.SecsS01F13(["secsgem", "0.3.0"]).encode(),
).blocks[0].encode()

real_select = tcp_connection_module.select
tcp_connection_module.select = FakeSelectModule
try:
    result = connection.send_data(block)
finally:
    tcp_connection_module.select = real_select

print(f"part 1: send_data({len(block)} bytes) returned {result}; fake socket got {len(fake.received)} bytes in {fake.calls} send() call(s)")
if result is True and bytes(fake.received) != block:
    problems.append(
        f"part 1: send_data returned True but only {len(fake.received)} of {len(block)} bytes were written "
        f"({bytes(fake.received).hex()} of {block.hex()})"
    )

# ---------------------------------------------------------------------------- part 2
listener = socket.socket(socket.AF_INET, socket.SOCK_STREAM)
listener.setsockopt(socket.SOL_SOCKET, socket.SO_RCVBUF, 4096)
listener.bind(("127.0.0.1", 0))
listener.listen(1)

sender = socket.socket(socket.AF_INET, socket.SOCK_STREAM)
sender.setsockopt(socket.SOL_SOCKET, socket.SO_SNDBUF, 4096)
sender.connect(listener.getsockname())
peer, _ = listener.accept()
listener.close()
sender.setblocking(False)  # as the library does for its sockets

received = bytearray()


def reader():
    while True:
        chunk = peer.recv(65536)
        if not chunk:
            return
        received.extend(chunk)


reader_thread = threading.Thread(target=reader, daemon=True)
reader_thread.start()

payload = bytes(range(256)) * (128 * 1024 // 256)
connection2 = settings.create_connection()
connection2._sock = sender
result2 = connection2.send_data(payload)
sender.shutdown(socket.SHUT_WR)  # everything send_data wrote is flushed, then EOF
reader_thread.join(20)
sender.close()
peer.close()

print(f"part 2: send_data({len(payload)} bytes) returned {result2}; peer received {len(received)} bytes")
if result2 is True and bytes(received) != payload:
    problems.append(f"part 2: send_data returned True but the peer received {len(received)} of {len(payload)} bytes")

if problems:
    print("FAIL: a partial socket write was reported as success")
    for problem in problems:
        print("  observed:", problem)
    sys.exit(1)

if result is not True or result2 is not True:
    print("FAIL: send_data did not report success", result, result2)
    sys.exit(1)

print("PASS: send_data keeps writing until the whole buffer is sent")
sys.exit(0)
