"""Demo for 443490a: Select/Deselect responses must reach the waiting requester
even when the state transition they trigger raises.

Schedule (crossing control transactions, legal in HSMS):
  1. we send Select.req (system X) and block in send_select_req() waiting for Select.rsp X
  2. the peer's own Select.req arrives first -> we answer Select.rsp and become SELECTED
  3. the peer's Select.rsp X arrives
On the unfixed tree step 3 calls connection_state.select() first; that raises
WrongSourceStateError (already SELECTED), the dispatcher swallows it, and the
response is never put into the queue for system X: send_select_req() runs into T6
and returns None ("select request failed") although the peer did answer.
Same for Deselect.req / Deselect.rsp.

Real HsmsProtocol; only the TCP connection is a mock. T6 is set to 1.5 s.
"""
import logging
import os
import sys
import threading
import time

sys.path.insert(0, os.getcwd())  # run from the root of the tree under test: cwd must win over the installed secsgem
sys.path.insert(1, os.path.join(os.getcwd(), "tests"))

import secsgem  # noqa: E402
import secsgem.hsms  # noqa: E402
from mock_connection import MockHsmsConnection  # noqa: E402
from mock_settings import MockHsmsSettings  # noqa: E402

logging.disable(logging.CRITICAL)

print("secsgem from", secsgem.__file__)

T6 = 1.5


class Connection(MockHsmsConnection):
    """Mock connection whose send_data reports success (the stock mock returns None)."""

    def send_data(self, data):
        super().send_data(data)
        return True


def wait_for_block(connection, predicate, timeout=2.0):
    end = time.monotonic() + timeout
    while time.monotonic() < end:
        for block in list(connection._packets):
            if predicate(block):
                connection._packets.remove(block)
                return block
        time.sleep(0.005)
    return None


def wait_until(predicate, timeout=2.0):
    end = time.monotonic() + timeout
    while time.monotonic() < end:
        if predicate():
            return True
        time.sleep(0.005)
    return False


def run(kind):
    """kind: 'select' or 'deselect'. Returns what the blocked requester got back."""
    settings = MockHsmsSettings(
        secsgem.hsms.HsmsProtocol,
        Connection,
        connect_mode=secsgem.hsms.HsmsConnectMode.PASSIVE,  # passive: no automatic select thread, we drive it
        t6=T6,
    )
    protocol = settings.create_protocol()
    protocol._system_counter = 0x1000  # fixed start value, only to make the printed system bytes reproducible
    connection = settings.connection
    protocol.enable()
    connection.simulate_connect()

    if kind == "select":
        request, req_type, rsp_type = protocol.send_select_req, 1, 2
        peer_req, peer_rsp = secsgem.hsms.HsmsSelectReqHeader, secsgem.hsms.HsmsSelectRspHeader
        target_state = "CONNECTED_SELECTED"
    else:
        # get selected first
        connection.simulate_message(secsgem.hsms.HsmsMessage(secsgem.hsms.HsmsSelectReqHeader(7), b""))
        assert wait_for_block(connection, lambda b: b.header.s_type.value == 2) is not None
        request, req_type, rsp_type = protocol.send_deselect_req, 3, 4
        peer_req, peer_rsp = secsgem.hsms.HsmsDeselectReqHeader, secsgem.hsms.HsmsDeselectRspHeader
        target_state = "CONNECTED_NOT_SELECTED"

    result = {}

    def requester():
        start = time.monotonic()
        result["response"] = request()
        result["elapsed"] = time.monotonic() - start

    thread = threading.Thread(target=requester, daemon=True)
    thread.start()

    # 1. our request is on the wire, requester is blocked waiting for system X
    ours = wait_for_block(connection, lambda b: b.header.s_type.value == req_type)
    assert ours is not None, "our request was not sent"
    system_x = ours.header.system
    assert wait_until(lambda: system_x in protocol._response_queues)

    # 2. crossing request from the peer is accepted -> state changes
    connection.simulate_message(secsgem.hsms.HsmsMessage(peer_req(0x4242), b""))
    assert wait_for_block(connection, lambda b: b.header.s_type.value == rsp_type and b.header.system == 0x4242)
    assert wait_until(lambda: protocol.connection_state.current.name == target_state)

    # 3. the peer's response to OUR request arrives
    connection.simulate_message(secsgem.hsms.HsmsMessage(peer_rsp(system_x), b""))

    thread.join(T6 + 3)
    protocol.disable()

    response = result.get("response")
    shown = None if response is None else f"{response.header.s_type.text} system={response.header.system:#x}"
    print(
        f"{kind:8}: request system={system_x:#x}, state after crossing request={target_state}, "
        f"send_{kind}_req() returned {shown} after {result.get('elapsed', float('nan')):.2f}s"
    )
    return response, system_x


problems = []
for kind in ("select", "deselect"):
    response, system_x = run(kind)
    if response is None:
        problems.append(f"send_{kind}_req() returned None (T6 timeout) although the peer answered system {system_x:#x}")
    elif response.header.system != system_x:
        problems.append(f"send_{kind}_req() got a response for the wrong system {response.header.system:#x}")

if problems:
    print("FAIL: the response was swallowed by the raising state transition")
    for problem in problems:
        print("  observed:", problem)
    sys.exit(1)

print("PASS: Select.rsp / Deselect.rsp reach the waiting requester before the (raising) transition")
sys.exit(0)
