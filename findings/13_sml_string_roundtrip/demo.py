"""Demo for 62c30b8: the SML text of string items must parse back to the same item.

Contract: item.sml is the textual form of the item and Item.from_sml() is its
reader, so Item.from_sml(item.sml) must give an equal item (type and value).
"""
import os
import sys

sys.path.insert(0, os.getcwd())  # run from the root of the tree under test: cwd must win over the installed secsgem

import secsgem  # noqa: E402
from secsgem.secs.item import Item  # noqa: E402
from secsgem.secs.item_str import ItemA, ItemJ  # noqa: E402

print("secsgem from", secsgem.__file__)

cases = [
    ItemA('say "hi"'),  # double quote inside a quoted run ends the run early
    ItemA('"'),
    ItemA('\n"x'),
    ItemJ('say "hi"'),
    ItemJ("a¥b"),  # YEN SIGN: code point 0xa5, JIS-8 byte 0x5c
    ItemJ("ｱ"),  # HALFWIDTH KATAKANA A: code point 0xff71, JIS-8 byte 0xb1
]

problems = []
for item in cases:
    sml = item.sml
    try:
        parsed = Item.from_sml(sml)
    except Exception as exc:  # noqa: BLE001
        first = str(exc).strip().splitlines()[-1] if str(exc).strip() else ""
        print(f"{type(item).__name__}({item.value!r}) -> {sml!r} -> {type(exc).__name__}: {first}")
        problems.append(f"{type(item).__name__}({item.value!r}): sml {sml!r} does not parse: {type(exc).__name__}: {first}")
        continue
    print(f"{type(item).__name__}({item.value!r}) -> {sml!r} -> {type(parsed).__name__}({parsed.value!r})")
    if type(parsed) is not type(item) or parsed.value != item.value or parsed.encode() != item.encode():
        problems.append(
            f"{type(item).__name__}({item.value!r}): sml {sml!r} parses to {type(parsed).__name__}({parsed.value!r})"
        )

if problems:
    print("FAIL: SML text of a string item does not parse back to the same item")
    for problem in problems:
        print("  observed:", problem)
    sys.exit(1)

print("PASS: every string item round-trips through its SML text")
sys.exit(0)
