"""S2F49 declares `reply: False` although its secondary S2F50 is catalogued (C03: the reply flag of a primary must
agree with its partner function and with the YAML catalogue).  Run: cd <tree> && /venv/bin/python <this file>"""
import os, sys
sys.path.insert(0, os.getcwd())
import secsgem.secs.functions as F
print("secsgem from", os.path.dirname(F.__file__))
bad = []
names = {n for n in dir(F) if n.startswith("SecsS")}
for n in sorted(names):
    cls = getattr(F, n)
    s, f = cls._stream, cls._function
    if f % 2 == 1:
        partner = f"SecsS{s:02d}F{f + 1:02d}" in names
        if cls._has_reply != partner:
            bad.append((n, cls._has_reply, partner))
if bad:
    print("FAIL: reply flag disagrees with the existence of the secondary:", bad); sys.exit(1)
print("PASS"); sys.exit(0)
