"""A transition between states of different depth inside one composite state (C18.O2; repaired by da78378: VIOLATED before, HOLDS after).
Run in a checkout of secsgem:  cd <tree> && /venv/bin/python /verif/findings/25_uneven_depth_ancestor_walk/demo.py
P contains X and the composite Q, Q contains Z.  The transition X -> Z stays inside P: P is neither left nor entered.
State.enter / State.leave walk the two parent chains in lock step (`source.parent != self.parent`), which finds the
common ancestor only when both states have the same depth: here P fires `leave` and `enter` although it stays active."""
import os, sys
sys.path.insert(0, os.getcwd())
from secsgem.common.state_machine import State, StateMachine, Transition

log = []


class Machine(StateMachine):
    def __init__(self):
        super().__init__()
        self.p = State(1, "P")
        self.x = State(2, "X", self.p, True)
        self.q = State(3, "Q", self.p)
        self.z = State(4, "Z", self.q)
        self._states = [self.p, self.x, self.q, self.z]
        self._transitions = [Transition("go", self.x, self.z), Transition("back", self.z, self.x)]
        for s in self._states:
            s.events.enter.register(lambda _d, n=s.name: log.append(f"enter {n}"))
            s.events.leave.register(lambda _d, n=s.name: log.append(f"leave {n}"))
        self._current_state = self.x
        self.x.enter(None)


m = Machine()
del log[:]
m._perform_transition("go")
go = list(log)
del log[:]
m._perform_transition("back")
back = list(log)
active = sorted(s.name for s in m._states if s.active)
ok = go == ["leave X", "enter Z", "enter Q"] or go == ["leave X", "enter Q", "enter Z"]
ok = ok and sorted(back) == sorted(["leave Z", "leave Q", "enter X"]) and active == ["P", "X"]
print(("HOLDS: " if ok else "VIOLATED: ") + f"X->Z inside P fired {go}; Z->X fired {back}; active afterwards {active}"
      + ("" if ok else "  (P is not exited by either transition, yet its leave/enter events fire)"))
