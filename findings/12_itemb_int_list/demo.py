"""Demo for 4a22170: ItemB built from a list of ints must hold exactly those bytes.

Contract: ItemB(value) represents the binary data given; a list of ints in 0..255
is one byte per int (the same as ItemB(bytes(list))).
"""
import os
import sys

sys.path.insert(0, os.getcwd())  # run from the root of the tree under test: cwd must win over the installed secsgem

import secsgem  # noqa: E402
from secsgem.secs.item_b import ItemB  # noqa: E402

print("secsgem from", secsgem.__file__)

problems = []
for ints in ([1, 2], [5], [0], [3, 0, 7]):
    item = ItemB(ints)
    expected_value = bytes(ints)
    expected_wire = bytes([0x21, len(ints)]) + expected_value
    wire = item.encode()
    print(f"ItemB({ints}) -> value {item.value!r}, wire {wire.hex()}, sml {item.sml}")
    if item.value != expected_value or wire != expected_wire:
        problems.append(
            f"ItemB({ints}): value {item.value!r} wire {wire.hex()} "
            f"(expected value {expected_value!r} wire {expected_wire.hex()})"
        )
    if ItemB(ints).value != ItemB(expected_value).value:
        problems.append(f"ItemB({ints}) != ItemB({expected_value!r})")

if problems:
    print("FAIL: ItemB(list of ints) does not hold the given bytes")
    for problem in problems:
        print("  observed:", problem)
    sys.exit(1)

print("PASS: ItemB(list of ints) holds one byte per int")
sys.exit(0)
