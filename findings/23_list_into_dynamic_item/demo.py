"""Demonstration of the known finding C03.P5 (not repaired): `cd <tree> && /venv/bin/python /verif/findings/23_list_into_dynamic_item/demo.py`."""
import os, sys
sys.path.insert(0, os.getcwd())
import secsgem.secs.data_items as di
out = []
for name in ("SV", "V", "ECV"):
    for val in ([1, 2], ["a", "b"]):
        try:
            item = getattr(di, name)(val)
            out.append(f"{name}({val!r}) -> {item.get()!r}")
        except Exception as exc:  # noqa: BLE001
            out.append(f"{name}({val!r}) raised {type(exc).__name__}")
bad = [o for o in out if "raised" in o]
print(("VIOLATED" if bad else "HOLDS") + ": plain lists given to data items that allow the L type: " + "; ".join(out))
sys.exit(1 if bad else 0)
