"""A request whose function object cannot be encoded leaves its response queue registered for ever.

History: the application calls send_and_waitfor_response(S6F11 with unset CEID) -> encode() raises AttributeError.
Before the fix the queue for these system bytes was registered before the message was built and never removed, so a
later inbound primary that happens to carry the same system bytes is put into the dead queue instead of being handed to
the application (C06: 'every other inbound data message is handed to the application exactly once').
Run: cd <tree> && /venv/bin/python /verif/findings/16_leaked_response_queue/demo.py
"""
import os, sys
sys.path.insert(0, os.getcwd())
sys.path.insert(0, os.path.join(os.getcwd(), "tests"))
import secsgem.hsms, secsgem.secs.functions as F
print("secsgem from", os.path.dirname(secsgem.hsms.__file__))

settings = secsgem.hsms.HsmsSettings(address="127.0.0.1", port=5000, connect_mode=secsgem.hsms.HsmsConnectMode.PASSIVE)
proto = secsgem.hsms.HsmsProtocol(settings)
try:
    proto.send_and_waitfor_response(F.SecsS06F11())
    print("unexpected: no exception")
except AttributeError:
    pass
leaked = dict(proto._response_queues)
if leaked:
    print("FAIL: response queue(s) left registered after the failed request:", list(leaked))
    sys.exit(1)
print("PASS: no response queue is left registered")
sys.exit(0)
