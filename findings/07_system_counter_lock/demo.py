"""Demo for 239d6f1: system bytes must be issued under a lock.

Contract: Protocol.get_next_system_counter() hands out the system bytes of a new
transaction; they identify the transaction (response queues are keyed by them), so
two concurrent callers must never get the same value. It is called from user
threads, the linktest timer, the select thread and event sender threads.

Unfixed body:   self._system_counter += 1 ; (wrap check) ; return self._system_counter
A thread switch after the increment's store lets a second caller increment again;
the first caller then re-reads the attribute and returns the second caller's value.

The switch is forced deterministically: a subclass turns `_system_counter` into a
property whose setter - only for thread A's first store - starts thread B
(a complete get_next_system_counter() call) and waits for it (max 1 s) before
returning. The method under test itself is the library's, unmodified.
With the lock B cannot enter until A has returned, so A's wait simply times out
and the two values differ.
"""
import os
import sys
import threading

sys.path.insert(0, os.getcwd())  # run from the root of the tree under test: cwd must win over the installed secsgem
sys.path.insert(1, os.path.join(os.getcwd(), "tests"))

import secsgem  # noqa: E402
import secsgem.hsms  # noqa: E402
from mock_connection import MockHsmsConnection  # noqa: E402
from mock_settings import MockHsmsSettings  # noqa: E402

print("secsgem from", secsgem.__file__)

results = {}
b_done = threading.Event()
state = {"armed": False, "a_ident": None, "b_thread": None, "b_finished_inside_a": None}


class ProbedProtocol(secsgem.hsms.HsmsProtocol):
    """HsmsProtocol whose counter attribute yields the CPU to thread B right after A's increment."""

    @property
    def _system_counter(self):
        return self.__dict__["_system_counter_value"]

    @_system_counter.setter
    def _system_counter(self, value):
        self.__dict__["_system_counter_value"] = value
        if state["armed"] and threading.get_ident() == state["a_ident"]:
            state["armed"] = False  # only once
            # "preemption": B runs a whole get_next_system_counter() now
            state["b_thread"].start()
            state["b_finished_inside_a"] = b_done.wait(1.0)


settings = MockHsmsSettings(ProbedProtocol, MockHsmsConnection)
protocol = settings.create_protocol()
protocol._system_counter = 100  # fixed start, only for reproducible output


def thread_a():
    state["a_ident"] = threading.get_ident()
    state["armed"] = True
    results["A"] = protocol.get_next_system_counter()


def thread_b():
    results["B"] = protocol.get_next_system_counter()
    b_done.set()


state["b_thread"] = threading.Thread(target=thread_b, name="B")
a = threading.Thread(target=thread_a, name="A")
a.start()
a.join(10)
state["b_thread"].join(10)

print("counter before          : 100")
print("B completed inside A's critical section:", state["b_finished_inside_a"])
print("A got system bytes      :", results.get("A"))
print("B got system bytes      :", results.get("B"))
print("counter after           :", protocol._system_counter)

if results.get("A") is None or results.get("B") is None:
    print("FAIL: a caller did not return", results)
    sys.exit(1)

if results["A"] == results["B"]:
    print("FAIL: two concurrent requests were handed the same system bytes")
    print(f"  observed: A == B == {results['A']} (increment / re-read is not atomic, no lock)")
    sys.exit(1)

if sorted(results.values()) != [101, 102]:
    print("FAIL: unexpected values", results)
    sys.exit(1)

print("PASS: concurrent callers got distinct system bytes (101, 102); B had to wait for A")
sys.exit(0)
