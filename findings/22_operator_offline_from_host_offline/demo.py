"""Operator OFF-LINE switch in HOST OFF-LINE (SEMI E30 control state transition 12).
Run from a checkout: `cd <tree> && /venv/bin/python /verif/findings/22_operator_offline_from_host_offline/demo.py`."""
import os, sys
sys.path.insert(0, os.getcwd()); sys.path.insert(0, os.path.join(os.getcwd(), "tests"))
import secsgem.gem
from mock_protocol import MockProtocol
from mock_settings import MockSettings

settings = MockSettings(MockProtocol)
eq = secsgem.gem.GemEquipmentHandler(settings, initial_control_state="HOST_OFFLINE")
before = eq.control_state.current.name if hasattr(eq, "control_state") else eq._control_state.current.name
try:
    eq.control_switch_offline()
    outcome = "accepted"
except Exception as exc:  # noqa: BLE001
    outcome = f"raised {type(exc).__name__}"
after = eq._control_state.current.name
ok = after == "EQUIPMENT_OFFLINE"
print(("HOLDS" if ok else "VIOLATED") + f": configured {before}; operator OFF-LINE switch {outcome}; control state now {after} (E30 transition 12: EQUIPMENT_OFFLINE)")
sys.exit(0 if ok else 1)
