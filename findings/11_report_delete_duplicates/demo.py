"""Demo for f9183e5: deleting a report must remove every occurrence of it from the
linked collection events.

History (host -> equipment, every step acknowledged with code 0 by the equipment):
  S2F33 define report 1000 = [SVID 10]
  S2F35 link CEID 50 -> [1000, 1000]   (same report twice in ONE request: accepted,
                                        the duplicate check only looks at existing links)
  S2F37 enable CEID 50
  S2F33 delete report 1000 (empty VID list)   -> DRACK 0
  S6F15 request event report for CEID 50
Contract: after an acknowledged delete of report 1000 no event may reference it.
Unfixed: list.remove() took out one of the two occurrences, CEID 50 stays linked to
the non-existent report; building the event report raises KeyError: the S6F15 is
answered with S6F0 (abort).

Real GemEquipmentHandler + HsmsProtocol; only the TCP connection is mocked.
"""
import logging
import os
import sys
import time

sys.path.insert(0, os.getcwd())  # run from the root of the tree under test: cwd must win over the installed secsgem
sys.path.insert(1, os.path.join(os.getcwd(), "tests"))

import secsgem  # noqa: E402
import secsgem.gem  # noqa: E402
import secsgem.hsms  # noqa: E402
import secsgem.secs  # noqa: E402
from mock_connection import MockHsmsConnection  # noqa: E402
from mock_settings import MockHsmsSettings  # noqa: E402
from secsgem.secs.functions import SecsS02F33, SecsS02F35, SecsS02F37, SecsS06F15  # noqa: E402

logging.disable(logging.CRITICAL)

print("secsgem from", secsgem.__file__)


class Connection(MockHsmsConnection):
    def send_data(self, data):
        super().send_data(data)
        return True


def wait_for_block(connection, predicate, timeout=2.0):
    end = time.monotonic() + timeout
    while time.monotonic() < end:
        for block in list(connection._packets):
            if predicate(block):
                connection._packets.remove(block)
                return block
        time.sleep(0.005)
    return None


settings = MockHsmsSettings(
    secsgem.hsms.HsmsProtocol,
    Connection,
    connect_mode=secsgem.hsms.HsmsConnectMode.PASSIVE,
)
equipment = secsgem.gem.GemEquipmentHandler(settings)
equipment.status_variables.update(
    {10: secsgem.gem.StatusVariable(10, "sample SV", "meters", secsgem.secs.variables.U4, False)}
)
equipment.status_variables[10].value = 123
equipment.collection_events.update({50: secsgem.gem.CollectionEvent(50, "sample CE", [])})
equipment.enable()

connection = settings.connection
connection.simulate_connect()
connection.simulate_message(secsgem.hsms.HsmsMessage(secsgem.hsms.HsmsSelectReqHeader(1), b""))
assert wait_for_block(connection, lambda b: b.header.s_type.value == 2) is not None
# establish communication: answer the equipment's S1F13 with S1F14 COMMACK=0
s1f13 = wait_for_block(connection, lambda b: b.header.s_type.value == 0 and (b.header.stream, b.header.function) == (1, 13))
assert s1f13 is not None
connection.simulate_message(
    secsgem.hsms.HsmsMessage(
        secsgem.hsms.HsmsStreamFunctionHeader(s1f13.header.system, 1, 14, False, 0),
        equipment.stream_function(1, 14)({"COMMACK": 0, "MDLN": []}).encode(),
    )
)
end = time.monotonic() + 2
while equipment.communication_state.current.name != "COMMUNICATING" and time.monotonic() < end:
    time.sleep(0.005)
assert equipment.communication_state.current.name == "COMMUNICATING"

system = [0x100]


def host_request(function):
    """Send a primary from the 'host' and return (stream, function, decoded reply)."""
    system[0] += 1
    sid = system[0]
    connection.simulate_message(
        secsgem.hsms.HsmsMessage(
            secsgem.hsms.HsmsStreamFunctionHeader(sid, function.stream, function.function, True, 0), function.encode()
        )
    )
    reply = wait_for_block(connection, lambda b: b.header.system == sid)
    assert reply is not None, f"no reply to S{function.stream}F{function.function}"
    message = secsgem.hsms.HsmsMessage.from_block(reply)
    try:
        decoded = settings.streams_functions.decode(message).get()
    except Exception:  # noqa: BLE001
        decoded = None
    print(f"  host S{function.stream}F{function.function} {function.get()!r:70} -> S{reply.header.stream}F{reply.header.function} {decoded!r}")
    return reply.header.stream, reply.header.function, decoded


acks = [
    host_request(SecsS02F33({"DATAID": 1, "DATA": [{"RPTID": 1000, "VID": [10]}]})),
    host_request(SecsS02F35({"DATAID": 2, "DATA": [{"CEID": 50, "RPTID": [1000, 1000]}]})),
    host_request(SecsS02F37({"CEED": True, "CEID": [50]})),
    host_request(SecsS02F33({"DATAID": 3, "DATA": [{"RPTID": 1000, "VID": []}]})),
]
assert all(ack[2] == 0 for ack in acks), f"setup step not acknowledged: {acks}"

links = {ceid: list(link.reports) for ceid, link in equipment._registered_collection_events.items()}
reports = list(equipment._registered_reports)
print("  equipment after delete: defined reports =", reports, " event links =", links)

stream, function, decoded = host_request(SecsS06F15(50))

equipment.disable()

dangling = {ceid: rpts for ceid, rpts in links.items() if any(rptid not in reports for rptid in rpts)}
if dangling or (stream, function) != (6, 16):
    print("FAIL: acknowledged report delete left a link to a report that no longer exists")
    print(f"  observed: event links {dangling} reference deleted report(s); defined reports: {reports}")
    print(f"  observed: S6F15 for CEID 50 answered with S{stream}F{function} (expected S6F16)")
    sys.exit(1)

print("PASS: delete removed every occurrence; S6F15 answered with S6F16", decoded)
sys.exit(0)
