"""S5F5 naming an alarm id the equipment does not have (C13).  Run in a checkout of secsgem:
    cd <tree> && /venv/bin/python /verif/findings/24_s5f5_unknown_alarm_id/demo.py
Parent of a42b67e: VIOLATED (KeyError in the handler -> the dispatcher answers S5F0, alarm 25 is not listed).
a42b67e and later: HOLDS (alarm 25 listed, id 99 answered with zero-length ALCD / ALTX)."""
import os, sys
sys.path.insert(0, os.getcwd())
import secsgem.gem
import secsgem.secs
from tests.mock_protocol import MockProtocol
from tests.mock_settings import MockSettings

settings = MockSettings(MockProtocol)
handler = secsgem.gem.GemEquipmentHandler(settings)
ALCD = secsgem.secs.data_items.ALCD
handler.alarms.update({25: secsgem.gem.Alarm(25, "sample", "t", ALCD.PERSONAL_SAFETY | ALCD.EQUIPMENT_SAFETY, 100025, 200025)})
request = handler.protocol.create_message_for_function(secsgem.secs.functions.SecsS05F05([25, 99]), 7)
try:
    reply = handler._on_s05f05(handler, request)
    listed = reply.get()
    ok = [e["ALID"] for e in listed] == [25, 99] and listed[0]["ALTX"] == "t" and listed[1]["ALTX"] == "" and listed[1]["ALCD"] in (b"", [], None)
    print(("HOLDS: " if ok else "VIOLATED: ") + f"S5F5 [25, 99] -> S5F6 {listed}")
except KeyError as exc:
    print(f"VIOLATED: S5F5 [25, 99] raises KeyError({exc}) in the handler: the request is aborted, alarm 25 is not listed")
