"""Demo for 53735ef: Dynamic.decode must know the JIS-8 format code.

Contract: a Dynamic variable that lists JIS8 among its allowed types must be able
to decode the bytes it produced itself for a JIS8 value (encode/decode round trip).
"""
import os
import sys

sys.path.insert(0, os.getcwd())  # run from the root of the tree under test: cwd must win over the installed secsgem

import secsgem  # noqa: E402
from secsgem.secs.variables import JIS8, Dynamic, String

print("secsgem from", secsgem.__file__)

source = Dynamic([JIS8, String])
source.set(JIS8("abc"))
wire = source.encode()
print("Dynamic([JIS8, String]) holding JIS8('abc') encodes to", wire.hex())

target = Dynamic([JIS8, String])
try:
    target.decode(wire)
except Exception as exc:  # noqa: BLE001
    print("FAIL: Dynamic that allows JIS8 cannot decode its own JIS8 encoding")
    print(f"  observed: {type(exc).__name__}: {exc}")
    sys.exit(1)

if target.get() != "abc" or not isinstance(target.value, JIS8):
    print("FAIL: decoded value differs")
    print(f"  observed: {target.get()!r} ({type(target.value).__name__})")
    sys.exit(1)

print("PASS: decoded", repr(target.get()), "as", type(target.value).__name__)
sys.exit(0)
