"""Demo for 23b53b5: a log-only decode failure must not drop inbound data messages.

Contract (SEMI E37 / E5 as implemented by the library):
 * a data message received while NOT SELECTED is answered with Reject.req (reason 4)
 * a primary with W-bit for an uncatalogued stream/function is answered with S9F5
 * a primary whose body cannot be decoded by its callback is answered with SxF0
On the unfixed tree HsmsProtocol decodes every data message *for the log* before
doing any of this; for these messages the decode raises, the dispatcher swallows
the exception and the peer never gets an answer.

Real HsmsProtocol + SecsHandler are used; only the TCP connection is the test
suite's MockHsmsConnection (records sent blocks, injects received bytes).
"""
import logging
import os
import sys
import time

sys.path.insert(0, os.getcwd())  # run from the root of the tree under test: cwd must win over the installed secsgem
sys.path.insert(1, os.path.join(os.getcwd(), "tests"))

import secsgem  # noqa: E402
import secsgem.hsms  # noqa: E402
import secsgem.secs  # noqa: E402
from mock_connection import MockHsmsConnection  # noqa: E402
from mock_settings import MockHsmsSettings  # noqa: E402

logging.disable(logging.CRITICAL)  # the swallowed exception is logged; keep the output readable

print("secsgem from", secsgem.__file__)


def wait_for_block(connection, predicate, timeout=2.0):
    """Poll the mock connection for a sent block matching predicate."""
    end = time.monotonic() + timeout
    while time.monotonic() < end:
        for block in list(connection._packets):
            if predicate(block):
                connection._packets.remove(block)
                return block
        time.sleep(0.01)
    return None


def describe(block):
    if block is None:
        return "nothing (no block sent within 2 s)"
    header = block.header
    if header.s_type.value == 0:
        return f"S{header.stream}F{header.function} system={header.system:#x}"
    return f"{header.s_type.text} system={header.system:#x}"


def new_handler():
    settings = MockHsmsSettings(
        secsgem.hsms.HsmsProtocol,
        MockHsmsConnection,
        connect_mode=secsgem.hsms.HsmsConnectMode.PASSIVE,
    )
    handler = secsgem.secs.SecsHandler(settings)
    handler.enable()
    settings.connection.simulate_connect()
    return settings, handler


def select(settings):
    settings.connection.simulate_message(secsgem.hsms.HsmsMessage(secsgem.hsms.HsmsSelectReqHeader(1), b""))
    rsp = wait_for_block(settings.connection, lambda b: b.header.s_type.value == 2)
    assert rsp is not None, "Select.rsp missing"
    assert settings.protocol.connection_state.current.name == "CONNECTED_SELECTED"


def data_message(system, stream, function, body=b""):
    return secsgem.hsms.HsmsMessage(secsgem.hsms.HsmsStreamFunctionHeader(system, stream, function, True, 0), body)


problems = []

# --- A: selected, uncatalogued S99F1 W -> S9F5 expected --------------------------------
settings, handler = new_handler()
select(settings)
settings.connection.simulate_message(data_message(0x1001, 99, 1))
reply = wait_for_block(settings.connection, lambda b: b.header.system == 0x1001)
print("A selected,  peer sends S99F1 W (not in catalogue)  -> reply:", describe(reply))
if reply is None or (reply.header.stream, reply.header.function) != (9, 5):
    problems.append(f"A: expected S9F5 for uncatalogued S99F1 W, got {describe(reply)}")
handler.disable()

# --- B: selected, S1F13 W with undecodable body, callback decodes it -> S1F0 expected ----
settings, handler = new_handler()
select(settings)


def on_s01f13(hdl, message):
    function = hdl.settings.streams_functions.decode(message)  # raises for the malformed body
    return hdl.stream_function(1, 14)({"COMMACK": 0, "MDLN": []}) if function is not None else None


handler.register_stream_function(1, 13, on_s01f13)
settings.connection.simulate_message(data_message(0x1002, 1, 13, b"\x41\x01x"))  # <A "x"> instead of <L MDLN SOFTREV>
reply = wait_for_block(settings.connection, lambda b: b.header.system == 0x1002)
print("B selected,  peer sends S1F13 W with malformed body -> reply:", describe(reply))
if reply is None or (reply.header.stream, reply.header.function) != (1, 0):
    problems.append(f"B: expected S1F0 (abort) for malformed S1F13 W, got {describe(reply)}")
handler.disable()

# --- C: NOT selected, uncatalogued S99F1 W -> Reject.req expected ----------------------
settings, handler = new_handler()
assert settings.protocol.connection_state.current.name == "CONNECTED_NOT_SELECTED"
settings.connection.simulate_message(data_message(0x1003, 99, 1))
reply = wait_for_block(settings.connection, lambda b: b.header.system == 0x1003)
print("C not selected, peer sends S99F1 W                  -> reply:", describe(reply))
if reply is None or reply.header.s_type.value != 7:
    problems.append(f"C: expected Reject.req for data message while not selected, got {describe(reply)}")
handler.disable()

if problems:
    print("FAIL: inbound data messages were dropped without any answer")
    for problem in problems:
        print("  observed:", problem)
    sys.exit(1)

print("PASS: undecodable inbound data messages are still rejected / answered with S9F5 / SxF0")
sys.exit(0)
