"""Demo for afee36f: communication is established only on COMMACK 0.

Contract (SEMI E30 communication state model): in WAIT_CRA the transition to
COMMUNICATING happens when an Establish Communications transaction completes with
COMMACK = 0 (accepted). COMMACK = 1 means "denied, try again": the state must not
become COMMUNICATING and 'handler_communicating' must not fire.

Two histories, both with the real GemHostHandler / GemEquipmentHandler on the real
HsmsProtocol (only the TCP connection is mocked):
 A. we sent S1F13, the peer answers S1F14 with COMMACK=1
 B. the peer sends S1F13 W, our on_commack_requested() override denies (returns 1),
    we answer S1F14 COMMACK=1
"""
import logging
import os
import sys
import time

sys.path.insert(0, os.getcwd())  # run from the root of the tree under test: cwd must win over the installed secsgem
sys.path.insert(1, os.path.join(os.getcwd(), "tests"))

import secsgem  # noqa: E402
import secsgem.gem  # noqa: E402
import secsgem.hsms  # noqa: E402
from mock_connection import MockHsmsConnection  # noqa: E402
from mock_settings import MockHsmsSettings  # noqa: E402

logging.disable(logging.CRITICAL)

print("secsgem from", secsgem.__file__)


class Connection(MockHsmsConnection):
    def send_data(self, data):
        super().send_data(data)
        return True


def wait_for_block(connection, predicate, timeout=2.0):
    end = time.monotonic() + timeout
    while time.monotonic() < end:
        for block in list(connection._packets):
            if predicate(block):
                connection._packets.remove(block)
                return block
        time.sleep(0.005)
    return None


def wait_until(predicate, timeout=2.0):
    end = time.monotonic() + timeout
    while time.monotonic() < end:
        if predicate():
            return True
        time.sleep(0.005)
    return False


def setup(handler_class):
    settings = MockHsmsSettings(
        secsgem.hsms.HsmsProtocol,
        Connection,
        connect_mode=secsgem.hsms.HsmsConnectMode.PASSIVE,
    )
    handler = handler_class(settings)
    fired = []
    handler.events.handler_communicating += lambda data: fired.append("handler_communicating")
    handler.enable()
    connection = settings.connection
    connection.simulate_connect()
    connection.simulate_message(secsgem.hsms.HsmsMessage(secsgem.hsms.HsmsSelectReqHeader(1), b""))
    assert wait_for_block(connection, lambda b: b.header.s_type.value == 2) is not None
    # selected -> handler enters WAIT_CRA and sends S1F13
    s1f13 = wait_for_block(connection, lambda b: b.header.s_type.value == 0 and (b.header.stream, b.header.function) == (1, 13))
    assert s1f13 is not None, "handler did not send S1F13"
    assert wait_until(lambda: handler.communication_state.current.name == "WAIT_CRA")
    return settings, handler, connection, s1f13, fired


problems = []

# ---- A: peer denies our S1F13 ----------------------------------------------------------
settings, handler, connection, s1f13, fired = setup(secsgem.gem.GemHostHandler)
denied = handler.stream_function(1, 14)({"COMMACK": 1, "MDLN": ["equipment", "1.0"]})
connection.simulate_message(
    secsgem.hsms.HsmsMessage(secsgem.hsms.HsmsStreamFunctionHeader(s1f13.header.system, 1, 14, False, 0), denied.encode())
)
wait_until(lambda: handler.communication_state.current.name != "WAIT_CRA", 1.0)
state_a = handler.communication_state.current.name
print(f"A  we sent S1F13, peer answered S1F14 COMMACK=1 (denied) -> state {state_a}, events {fired}")
if state_a == "COMMUNICATING" or fired:
    problems.append(f"A: denied S1F14 (COMMACK=1) moved the handler to {state_a}, events fired: {fired}")
handler.disable()


# ---- B: we deny the peer's S1F13 -------------------------------------------------------
class DenyingEquipment(secsgem.gem.GemEquipmentHandler):
    def on_commack_requested(self):
        return 1  # documented override: 1 = connection denied


settings, handler, connection, s1f13, fired = setup(DenyingEquipment)
connection.simulate_message(
    secsgem.hsms.HsmsMessage(
        secsgem.hsms.HsmsStreamFunctionHeader(0x5001, 1, 13, True, 0), handler.stream_function(1, 13)().encode()
    )
)
answer = wait_for_block(connection, lambda b: b.header.system == 0x5001)
assert answer is not None and (answer.header.stream, answer.header.function) == (1, 14), "no S1F14 answer"
commack = settings.streams_functions.decode(secsgem.hsms.HsmsMessage.from_block(answer)).COMMACK.get()
wait_until(lambda: handler.communication_state.current.name != "WAIT_CRA", 1.0)
state_b = handler.communication_state.current.name
print(f"B  peer sent S1F13 W, we answered S1F14 COMMACK={commack} (denied)  -> state {state_b}, events {fired}")
if commack != 1:
    problems.append(f"B: expected our answer to carry COMMACK=1, got {commack}")
if state_b == "COMMUNICATING" or fired:
    problems.append(f"B: after denying with COMMACK=1 the handler is {state_b}, events fired: {fired}")
handler.disable()

if problems:
    print("FAIL: a refused establish-communications request was reported as established")
    for problem in problems:
        print("  observed:", problem)
    sys.exit(1)

print("PASS: COMMACK=1 leaves the handler in WAIT_CRA, no handler_communicating event")
sys.exit(0)
