#!/bin/bash
# developer tool (never run by a check): mutate every anchored function and list the survivors that are not in the
# reviewed baseline tools/mutation_survivors.txt - a normal-form or summary change that makes a rule blind shows up here
cd /verif
out=$(mktemp /tmp/mutrun.XXXXXX)
/venv/bin/python -m sa.mutate ALL 6 > $out 2>&1
tail -1 $out
grep SURVIVED $out | sed 's/  */ /g' | sort > $out.s
echo "new survivors (not in the baseline):"
comm -13 tools/mutation_survivors.txt $out.s | cut -c1-200
rm -f $out $out.s
