#!/venv/bin/python
"""Confirm a seeded change independently and store it under /verif/seeded/<name>/.

usage: verify_seed.py <seed dir with patch.diff demo.py notes.md> <property id> <name>

Steps (all in a scratch worktree of /repo under /tmp, removed afterwards):
  1. patch applies to /repo HEAD;  2. full pinned suite passes with the patch (2834 passed);
  3. demo exits 1 with the patch;  4. demo exits 0 without the patch.
"""
import json, os, shutil, subprocess, sys, tempfile, time

seed, prop, name = sys.argv[1], sys.argv[2], sys.argv[3]
wt = tempfile.mkdtemp(prefix="seedwt_", dir="/tmp")
os.rmdir(wt)
def run(cmd, **kw):
    return subprocess.run(cmd, shell=True, capture_output=True, text=True, **kw)
res = {"property": prop, "name": name}
try:
    r = run(f"git -C /repo worktree add -q --detach {wt} HEAD"); assert r.returncode == 0, r.stderr
    patch = os.path.abspath(os.path.join(seed, "patch.diff"))
    r = run(f"git -C {wt} apply {patch}"); res["applies"] = r.returncode == 0
    assert res["applies"], r.stderr
    t = time.time()
    r = run("/venv/bin/python -m pytest -q -p no:cacheprovider --timeout=60 -n 10 2>&1 | tail -3", cwd=wt)
    res["suite_tail"] = r.stdout.strip().splitlines()[-1] if r.stdout.strip() else r.stderr[-300:]
    res["suite_passes"] = "2834 passed" in r.stdout and "failed" not in r.stdout
    demo = os.path.abspath(os.path.join(seed, "demo.py"))
    r = run(f"timeout 120 /venv/bin/python {demo}", cwd=wt); res["demo_with_change_exit"] = r.returncode
    res["demo_with_change_tail"] = (r.stdout.strip().splitlines() or [""])[-1][:300]
    run(f"git -C {wt} apply -R {patch}")
    run(f"git -C {wt} checkout -- . ")
    r = run(f"timeout 120 /venv/bin/python {demo}", cwd=wt); res["demo_without_change_exit"] = r.returncode
    res["confirmed"] = bool(res["suite_passes"] and res["demo_with_change_exit"] == 1 and res["demo_without_change_exit"] == 0)
finally:
    run(f"git -C /repo worktree remove --force {wt}")
    shutil.rmtree(wt, ignore_errors=True)
print(json.dumps(res, indent=1))
if res.get("confirmed"):
    dst = os.path.join("/verif/seeded", name)
    os.makedirs(dst, exist_ok=True)
    for f in ("patch.diff", "demo.py", "notes.md"):
        if os.path.exists(os.path.join(seed, f)):
            shutil.copy(os.path.join(seed, f), os.path.join(dst, f))
    meta = {"property": prop, "source": "independent sub-agent given only the property text and a scratch worktree",
            "needs_to_manifest": "see notes.md", "confirmed_by": "tools/verify_seed.py: patch applies to /repo HEAD; pinned suite 2834 passed with the change; demo exit 1 with the change, exit 0 without",
            "verification": res}
    json.dump(meta, open(os.path.join(dst, "meta.json"), "w"), indent=1)
sys.exit(0 if res.get("confirmed") else 1)
