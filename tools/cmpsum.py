import sys; sys.path.insert(0, "/verif")
from sa import model, normal, udiff, summary
base = model.load_repo(model.REPO_ROOT)
patch = sys.argv[1]
ov = udiff.apply(open(patch).read(), base.read_text, reverse=False)
repo = model.Repo(model.REPO_ROOT, overrides=ov, share=base)
for spec in sys.argv[2:]:
    out = []
    for r in (base, repo):
        if ":" in spec:
            mod, meth = spec.split(":")
            f = r.module_func(mod, meth)
        else:
            cls, meth = spec.split(".")
            f = r.method(cls, meth, inherited=False)
        fn, used = normal.normalise(r, f, comps=False, ifexp=False)
        params = {"data": summary.Term("data", "bytes")} if meth == "decode" else None
        try:
            out.append(summary.describe(summary.summarise(fn, params)))
        except Exception as e:
            out.append(f"ERR {type(e).__name__} {e}")
    print(spec, "SAME" if out[0] == out[1] else "DIFF\n  " + out[0] + "\n  " + out[1])
