#!/venv/bin/python
"""Developer tool: run every property check against every variant (seeded patches under /verif/seeded or a given
directory, and the reverse of each fix: commit of /repo) and print which checks fire.

usage: tools/matrix.py [--dir DIR] [--fixes] [--props C01,C02]"""
import argparse, concurrent.futures as cf, glob, json, os, shutil, subprocess, sys, tempfile
sys.path.insert(0, "/verif")
from sa.trypatch import make_scratch

ALL = [f"C{i:02d}" for i in range(1, 21)]

def job(args):
    name, patch, reverse, props = args
    try:
        tmp = make_scratch(patch, reverse)
    except SystemExit as exc:
        return name, {"_error": str(exc)[:200]}
    out = tempfile.mkdtemp(prefix="sa_out_")
    try:
        env = dict(os.environ, SA_OUT_DIR=out, SECSGEM_REPO=tmp, SA_NO_SELFTEST="1")
        r = subprocess.run(["/venv/bin/python", "-m", "sa.runall", tmp] + props, cwd="/verif", env=env, capture_output=True, text=True)
        try:
            return name, json.loads(r.stdout.strip().splitlines()[-1])
        except Exception:
            return name, {"_error": (r.stdout + r.stderr)[-300:]}
    finally:
        shutil.rmtree(tmp, ignore_errors=True); shutil.rmtree(out, ignore_errors=True)

ap = argparse.ArgumentParser(); ap.add_argument("--dir", default="/verif/seeded"); ap.add_argument("--fixes", action="store_true"); ap.add_argument("--props", default=",".join(ALL)); ap.add_argument("--glob", default="*")
a = ap.parse_args()
props = a.props.split(",")
jobs = []
for d in sorted(glob.glob(os.path.join(a.dir, a.glob))):
    p = os.path.join(d, "patch.diff")
    if os.path.exists(p):
        jobs.append((os.path.basename(d), p, False, props))
if a.fixes:
    log = subprocess.run("git -C /repo log --format=%h%x09%s c31ba13..HEAD", shell=True, capture_output=True, text=True).stdout.splitlines()
    for l in log:
        h, s = l.split("\t", 1)
        jobs.append((f"revert {h} {s[5:45]}", h, True, props))
with cf.ProcessPoolExecutor(max_workers=14) as ex:
    res = list(ex.map(job, jobs))
for name, r in res:
    if "_error" in r:
        print(f"{name:50s} ERROR {r['_error']}"); continue
    fired = [p for p in props if r[p]["exit"] == 1]
    errs = [p for p in props if r[p]["exit"] == 2]
    print(f"{name:50s} fire: {','.join(fired) or '-':40s} exit2: {','.join(errs) or '-'}")
