import sys,subprocess,tempfile,shutil,os
sys.path.insert(0,'/verif')
from sa import model, refmodels, report
from sa.props import _codec
patch,prop,target=sys.argv[1:4]
d=tempfile.mkdtemp(dir='/tmp')
subprocess.run(f"cp -r /repo/secsgem {d}/ && cd {d} && git init -q . && git apply {patch}",shell=True,check=True)
repo=model.Repo(d)
class C: pass
ctx=report.Ctx(prop,'quick',0,repo) if hasattr(report,'Ctx') else None
m=[e for e in refmodels.load_index() if e['property']==prop and e['target']==target][0]
f=refmodels.resolve(repo,target)
keep=set(m.get('keep',()))
found=_codec.signature(_codec.paths_of(ctx,f,None,keep))
gone=_codec.vanished_helpers(f,keep,refmodels.model_text(target))
print('gone',gone)
want=_codec.signature(_codec.reference_paths_inlined(ctx,f,refmodels.model_text(target),None,keep,gone)) if gone else _codec.signature(_codec.reference_paths(refmodels.model_text(target),None,like=f,repo=repo))
for c in m['components']:
    a,b=set(found[c]),set(want[c])
    print('==',c,len(a),len(b))
    for x in sorted(a-b)[:6]: print('  +found',x[:int(sys.argv[4]) if len(sys.argv)>4 else 300])
    for x in sorted(b-a)[:6]: print('  -want ',x[:int(sys.argv[4]) if len(sys.argv)>4 else 300])
shutil.rmtree(d)
