#!/venv/bin/python
"""Confirm a round-2 seeded change independently and store it under /verif/seeded/<name>/.

usage: verify_seed2.py <seed dir with patch.diff demo.py notes.md> <property id> <name>

In a scratch worktree of /repo under /tmp (removed afterwards): 1. the patch applies to /repo HEAD; 2. the full pinned
suite passes with the patch (2834 passed); 3. the demo prints `VIOLATED: ...` with the patch; 4. `HOLDS: ...` without."""
import json, os, shutil, subprocess, sys, tempfile

seed, prop, name = sys.argv[1], sys.argv[2], sys.argv[3]
wt = tempfile.mkdtemp(prefix="seedwt_", dir="/tmp"); os.rmdir(wt)
def run(cmd, **kw):
    return subprocess.run(cmd, shell=True, capture_output=True, text=True, **kw)
res = {"property": prop, "name": name}
try:
    r = run(f"git -C /repo worktree add -q --detach {wt} HEAD"); assert r.returncode == 0, r.stderr
    patch = os.path.abspath(os.path.join(seed, "patch.diff"))
    r = run(f"git -C {wt} apply {patch}"); res["applies"] = r.returncode == 0
    assert res["applies"], r.stderr
    r = run("/venv/bin/python -m pytest -q -p no:cacheprovider --timeout=120 -n 6 2>&1 | tail -3", cwd=wt)
    res["suite_tail"] = r.stdout.strip().splitlines()[-1] if r.stdout.strip() else r.stderr[-300:]
    res["suite_passes"] = "2834 passed" in r.stdout and "failed" not in r.stdout
    demo = os.path.abspath(os.path.join(seed, "demo.py"))
    r = run(f"timeout 120 /venv/bin/python {demo}", cwd=wt)
    lines = [l for l in r.stdout.splitlines() if l.startswith(("VIOLATED", "HOLDS"))]
    res["demo_with_change"] = (lines or [r.stdout[-200:] + r.stderr[-200:]])[-1][:400]
    run(f"git -C {wt} apply -R {patch}"); run(f"git -C {wt} checkout -- . ")
    r = run(f"timeout 120 /venv/bin/python {demo}", cwd=wt)
    lines = [l for l in r.stdout.splitlines() if l.startswith(("VIOLATED", "HOLDS"))]
    res["demo_without_change"] = (lines or [r.stdout[-200:] + r.stderr[-200:]])[-1][:400]
    res["confirmed"] = bool(res["suite_passes"] and res["demo_with_change"].startswith("VIOLATED") and res["demo_without_change"].startswith("HOLDS"))
except AssertionError as exc:
    res["error"] = str(exc)[:300]
finally:
    run(f"git -C /repo worktree remove --force {wt}"); shutil.rmtree(wt, ignore_errors=True)
print(json.dumps(res))
if res.get("confirmed"):
    dst = os.path.join("/verif/seeded", name); os.makedirs(dst, exist_ok=True)
    for f in ("patch.diff", "demo.py", "notes.md"):
        if os.path.exists(os.path.join(seed, f)):
            shutil.copy(os.path.join(seed, f), os.path.join(dst, f))
    notes = open(os.path.join(seed, "notes.md")).read() if os.path.exists(os.path.join(seed, "notes.md")) else ""
    meta = {"property": prop, "round": 2, "source": "independent sub-agent given only the property text (and one-line descriptions of the round-1 defects to avoid) and a scratch worktree",
            "change": next((l.strip("# ").strip() for l in notes.splitlines() if l.strip()), "")[:200],
            "needs_to_manifest": "see notes.md", "ran": "tools/verify_seed2.py: patch applies to /repo HEAD; pinned suite 2834 passed with the change; demo prints VIOLATED with the change and HOLDS without",
            "verification": res}
    json.dump(meta, open(os.path.join(dst, "meta.json"), "w"), indent=1)
sys.exit(0 if res.get("confirmed") else 1)
