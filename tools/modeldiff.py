import sys; sys.path.insert(0,'/verif')
"""usage: modeldiff.py <patch> <property> <target> : case-table rows that differ between implementation and model."""
from sa import model, udiff, report, refmodels
from sa.props import _codec
base = model.load_repo(model.REPO_ROOT)
patch, prop, target = sys.argv[1:4]
repo = base
if patch != "-":
    ov = udiff.apply(open(patch).read(), base.read_text, reverse=False)
    repo = model.Repo(model.REPO_ROOT, overrides=ov, share=base)
m = next(x for x in refmodels.load_index() if x["property"] == prop and x["target"] == target)
ctx = report.Ctx(prop, "quick", 0, repo)
f = refmodels.resolve(repo, target)
_codec.IGNORE[:] = list(m.get("ignore", ()))
found = _codec.signature(_codec.paths_of(ctx, f, None, set(m.get("keep", ()))))
want = _codec.signature(_codec.reference_paths(refmodels.model_text(target), like=f, repo=repo))
for comp in m["components"]:
    a, b = set(found[comp]), set(want[comp])
    if a != b:
        print(comp, "ONLY FOUND:"); [print("   ", x[:int(sys.argv[4]) if len(sys.argv) > 4 else 300]) for x in sorted(a - b)[:6]]
        print(comp, "ONLY MODEL:"); [print("   ", x[:int(sys.argv[4]) if len(sys.argv) > 4 else 300]) for x in sorted(b - a)[:6]]
