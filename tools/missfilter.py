import sys,re
bad=0;n=0
for line in sys.stdin:
    m=re.match(r'^(C\d\d)_(\d+)\s+fire: (\S+)\s+exit2: (\S+)',line)
    if m:
        n+=1
        if m.group(1) not in m.group(3).split(','): print('MISS',line.strip()); bad+=1
    elif line.startswith('revert'):
        n+=1
        if 'fire: -' in line: print('MISS',line.strip()); bad+=1
print('checked',n,'bad',bad)
