#!/venv/bin/python
"""Developer tool (never run by a check): write reference-model files for the functions listed in a spec file.

usage: tools/snapshot_models.py SPEC.json     SPEC = [{"property","rule","target","components","sentence",["keep"],["data_is_bytes"]}]
Each model is the function's current source with docstrings, annotations and decorators removed; it is accepted only if
its summary is computable and precise.  The models must then be REVIEWED against the property before they are committed."""
import ast, json, os, sys
sys.path.insert(0, "/verif")
from sa import model, normal, summary, refmodels
from sa.props import _codec

spec = json.load(open(sys.argv[1]))
repo = model.load_repo(model.REPO_ROOT)
index_path = os.path.join(refmodels.DIR, "index.json")
index = json.load(open(index_path))["models"] if os.path.exists(index_path) else []
have = {(m["property"], m["target"]) for m in index}


class Strip(ast.NodeTransformer):
    def visit_FunctionDef(self, node):
        self.generic_visit(node)
        node.decorator_list = []
        node.returns = None
        for a in node.args.args + node.args.kwonlyargs:
            a.annotation = None
        if node.body and isinstance(node.body[0], ast.Expr) and isinstance(node.body[0].value, ast.Constant) and isinstance(node.body[0].value.value, str):
            node.body = node.body[1:] or [ast.Pass()]
        return node

    def visit_AnnAssign(self, node):
        if node.value is None:
            return None
        return ast.copy_location(ast.Assign(targets=[node.target], value=node.value), node)


class Ctx:  # minimal stand-in
    def __init__(self, repo):
        self.repo = repo
    def touch(self, f):
        pass


for m in spec:
    key = (m["property"], m["target"])
    existing = False
    try:
        f = refmodels.resolve(repo, m["target"])
        keep = set(m.get("keep", ()))
        for _attempt in range(4):
            fn, used = normal.normalise(repo, f, keep, comps=False, ifexp=False)
            blocked = set()

            def splice(stmts):
                out = []
                for st in stmts:
                    for field in ("body", "orelse", "finalbody"):
                        sub = getattr(st, field, None)
                        if isinstance(sub, list) and sub and isinstance(sub[0], ast.stmt) and st.__class__.__name__ != "InlineBlock":
                            setattr(st, field, splice(sub))
                    if isinstance(st, ast.Try):
                        for h in st.handlers:
                            h.body = splice(h.body)
                    if st.__class__.__name__ == "InlineBlock":
                        if any(x.__class__.__name__ == "LeaveBlock" for x in ast.walk(st)):
                            blocked.add(st._sa_helper)
                        out.extend(splice(list(st.body)))
                    else:
                        out.append(st)
                return out

            fn.body = splice(fn.body)
            if not blocked:
                break
            keep |= blocked  # a helper with early exits cannot be written in place: the model calls it, the check keeps it too
        existing = m.pop("_existing", False)
        if existing:  # another property already has a reviewed model of this function: claim the same file
            keep = set(m.get("keep", ()))
            text = refmodels.model_text(m["target"])
        else:
            m["keep"] = sorted(keep)
            src_fn = Strip().visit(ast.parse(ast.unparse(fn)).body[0])
            ast.fix_missing_locations(src_fn)
            text = ast.unparse(src_fn) + "\n"
        params = _codec.decode_params() if m.get("data_is_bytes") else None
        sig_model = _codec.signature(_codec.reference_paths(text, params, like=f, repo=repo))
        sig_impl = _codec.signature(_codec.paths_of(Ctx(repo), f, params, keep))
        lost = [t for c in m["components"] for t in sig_impl[c] if any(x in t for x in _codec.LOST)]
        if lost:
            print("SKIP (imprecise)", m["target"], lost[0][:120]); continue
        if any(sig_model[c] != sig_impl[c] for c in m["components"]):
            print("SKIP (model != impl)", m["target"]); continue
        if all(not sig_impl[c] for c in m["components"]):
            print("SKIP (empty components)", m["target"]); continue
    except Exception as exc:
        print("SKIP", m["target"], type(exc).__name__, str(exc)[:120]); continue
    if not existing:
        with open(os.path.join(refmodels.DIR, m["target"].replace(":", ".").replace("/", ".") + ".py"), "w") as h:
            h.write(text)
    if key not in have:
        index.append(m); have.add(key)
    else:
        index = [m if (x["property"], x["target"]) == key else x for x in index]
    print("OK  ", m["target"], {c: len(sig_impl[c]) for c in m["components"]})
json.dump({"models": index}, open(index_path, "w"), indent=1)
