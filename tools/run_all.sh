#!/bin/bash
# run every registered quick (or thorough) check in parallel and summarise
tier=${1:-quick}
cd /verif
ls sa/props/c[0-9][0-9].py | sed 's#.*/c\([0-9]*\).py#C\1#' | xargs -P 16 -I{} sh -c "/venv/bin/python -m sa.check {} --tier $tier > /tmp/sa_run_{}.log 2>&1; echo {} exit=\$? \$(grep -c KNOWN-FINDING /tmp/sa_run_{}.log) known \$(head -1 /tmp/sa_run_{}.log | cut -c1-110)" | sort
