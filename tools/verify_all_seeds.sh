#!/bin/bash
# verify every seed under /tmp/seed/<ID>/<k> that has not been verified yet
for d in /tmp/seed/C*/[0-9]; do
  id=$(basename $(dirname $d)); k=$(basename $d)
  [ -f $d/patch.diff ] || continue
  [ -f /tmp/seed/$id/verify_$k.json ] && continue
  /verif/tools/verify_seed.py $d $id ${id}_$k > /tmp/seed/$id/verify_$k.json 2>&1
done
