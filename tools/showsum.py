import sys; sys.path.insert(0, "/verif")
import ast
from sa import model, normal, udiff, summary
base = model.load_repo(model.REPO_ROOT)
patch, cls, meth = sys.argv[1:4]
repo = base
if patch != "-":
    ov = udiff.apply(open(patch).read(), base.read_text, reverse=False)
    repo = model.Repo(model.REPO_ROOT, overrides=ov, share=base)
f = repo.method(cls, meth, inherited=False)
fn, used = normal.normalise(repo, f, comps=False, ifexp=False)
params = {"data": summary.Term("data", "bytes")} if meth == "decode" else None
for p in summary.summarise(fn, params):
    print(p)
